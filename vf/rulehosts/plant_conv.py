"""Hosts for the convolution-family rules of rules/common:

  _fuse_pad_into_conv.py  : fuse_pad_into_conv_rule, fuse_pad_into_conv_integer_rule,
                            normalize_pad_format_conv_rule, normalize_pad_format_conv_integer_rule
  _fuse_conv_affine.py    : affine_conv_fusion_rule, conv_affine_fusion_rule
  _fuse_batchnorm.py      : fuse_batchnorm_into_conv_rule, fuse_batchnorm_into_conv_transpose_rule
  _remove_optional_bias.py: remove_optional_bias_from_conv_rule, remove_optional_bias_from_conv_transpose_rule,
                            remove_optional_bias_from_qlinear_conv_rule

All tensors are small (N<=2, C<=4, spatial<=6, kernel<=3); float data is small-integer valued so that both runtimes are
exact on the sample.  Every host draws a `strict` flag (about half of the cases): in strict mode the parameters that the
rule's side condition forbids (near-miss classes) are not drawn, so that the rule fires often; all other parameters vary
in both modes (tag "planted:<host>:strict").

Host-validity guard: onnx.reference (used by g.emit to evaluate the sample) computes the auto_pad padding of spatial dim i
from X.shape[i] instead of X.shape[i+2], applies that SAME padding also for auto_pad=VALID, and does not clamp negative
padding.  Every Conv / ConvInteger emitted here is therefore re-computed with an independent numpy convolution (_np_conv)
and the host is declined when the reference result differs; kernel/stride/dilation triples are drawn from the set on
which the reference happens to be right (_geometry).  (onnxruntime refuses SAME_* with dilations != 1, so those hosts are reference-only.)

fuse_pad_into_conv(_integer)  [host_pad_conv / host_pad_conv_integer]
  drawn : conv rank 1-D/2-D/3-D; N, C, M, group; x declared static / symbolic batch / symbolic spatial / all unknown dims;
          x fed directly or through Identity/Relu/Neg (then its shape is known only through value_info);
          host opset default 13..23 or pinned 10 (attribute-form Pad, float only), 11, 12;
          Pad mode absent/constant/reflect/edge/wrap(opset>=19); pads classes: zeros, spatial>=0, non-zero on batch/channel,
          negative entries (rare: onnx.reference cannot evaluate negative pads, so such hosts are nearly always declined);
          pads as Constant/initializer/overridable initializer/Identity(const)/graph input;
          constant_value absent / "" (skipped optional) / 0 / -0.0 / non-zero / Identity(0); axes input (opset>=18) absent /
          all / spatial only / negative / permuted / spatial subset / including batch, const or Identity(const);
          Conv attributes kernel_shape present/absent, strides, dilations, pads absent/zeros/non-zero, auto_pad absent/NOTSET/
          VALID/SAME_UPPER/SAME_LOWER, group; bias present/absent; weight as Constant/initializer/overridable/graph input;
          ConvInteger x uint8/int8, w uint8/int8, x_zero_point and w_zero_point absent / "" / 0 / non-zero;
          Pad output additionally a graph output (extra consumer).
  not enumerated: float16/float64 data, per-channel w_zero_point, Pad constant_value of shape [1], duplicate axes,
          int32 axes (schema allows them, onnx shape inference rejects them -> checker-invalid host).

normalize_pad_format_conv(_integer)  [host_autopad / host_autopad_integer]
  drawn : conv rank 1..3; auto_pad absent/NOTSET/VALID/SAME_UPPER/SAME_LOWER; odd/even spatial sizes 3..6; kernel 1..3;
          strides 1..3 (attr present/absent); dilations 1..2 (present/absent); kernel_shape present/absent; group;
          pads attr together with NOTSET; x static / symbolic batch / symbolic spatial; x direct or through Identity/Relu;
          weight const / overridable / graph input (static or symbolic dims); bias / zero points; conv output as graph
          output (declared rank-only) or as intermediate consumed by Relu/Identity (shape known via value_info only).
  not enumerated: auto_pad together with an explicit pads attribute (forbidden by the spec), float16/float64,
          auto_pad geometries on which onnx.reference is wrong (see above).

affine_conv_fusion_rule  [host_affine_conv]   Conv(x*s+o, w, b, pads=[0,0,0,0])
  drawn : conv rank (2-D mostly; 1-D/3-D as near-miss); pads attr zeros / absent / non-zero; auto_pad absent/NOTSET/VALID/
          SAME_UPPER/SAME_LOWER together with zero pads (tagged pads_autopad_*: the spec forbids using both, checker and
          runtimes accept it); s and o shapes [], [1], [1,1,1,1], [1,1,1], per-channel [1,C,1,1] / [C,1,1] (distinct or
          all-equal values); s, o as Constant/initializer/overridable/Identity(const); operand order of Mul and Add;
          bias present/absent/""; weight/bias const or graph input; group, strides, dilations, kernel_shape; extra
          consumer of the Mul/Add value; float32 (float64 rarely).
conv_affine_fusion_rule  [host_conv_affine]   Conv(x, w, b)*s + o
  drawn : same as above plus any conv rank, non-zero pads, auto_pad, s/o shapes of rank > conv rank ([1]*(rank+1)) and [1,1].
  not enumerated (both): Sub/Div in place of Add/Mul, float16.

fuse_batchnorm_into_conv / conv_transpose  [host_bn_conv / host_bn_conv_transpose]
  drawn : conv rank 1..3; group; strides/dilations/pads/auto_pad (ConvTranspose also output_padding / output_shape);
          bias present / absent / ""; epsilon absent / 1e-5 / 1e-3 / 0.1 / 1.0; momentum; training_mode absent/0/1 (opset>=14,
          training_mode=1 with 3 outputs as the checker demands); BN params and conv weight/bias as initializer / Constant
          node / overridable initializer / graph input / Identity(const); variance incl. 0 and tiny; gamma incl. 0 and
          negative; weight shared with a second Conv; one parameter tensor used for several BN inputs; conv output with an
          extra consumer; x direct or via a node.
  not enumerated: float16/float64, opset < 13; ConvTranspose with group>1 is limited to what onnx.reference can evaluate
          (depthwise C/g = M/g = 1 without bias; other grouped forms are drawn rarely and nearly always declined).

remove_optional_bias_from_conv / conv_transpose / qlinear_conv  [host_bias_conv / host_bias_conv_transpose / host_bias_qlinear_conv]
  drawn : bias = +0 / -0.0 / tiny (1e-30, 1e-9, denormal) / one non-zero entry / absent / ""; bias as Constant / initializer /
          overridable initializer / graph input / Identity(const); all Conv attributes as above; QLinearConv x,w uint8/int8,
          zero points, per-tensor / per-channel w_scale, int32 bias.
  not enumerated: float16 / float64 / bfloat16 data.
"""
from __future__ import annotations

import math

import numpy as np

from vf.hyp import st
from vf.modelgen import F32, F64, I32, make_array
from vf.rulehosts.plant import register, scenario

U8 = np.dtype("uint8")
I8 = np.dtype("int8")


# ----------------------------------------------------------------------------------------------- helpers
def _divisors(n):
    return [d for d in (1, 2, 3, 4) if n % d == 0]


def _opt(g, strict, good, bad, name=None):
    """Pick from the firing classes only (strict) or from firing + near-miss classes.
    In single-deviation mode (g._single_dev set) every parameter is drawn from the firing classes except the ONE named
    parameter, which is drawn from the near-miss classes: a near-miss that differs in exactly one constraint."""
    dev = getattr(g, "_single_dev", None)
    if dev is not None and name is not None:
        if name == dev and bad:
            return g.pick(list(bad))
        return g.pick(list(good))
    return g.pick(list(good) if strict else list(good) + list(bad))


def _const(g, arr, how=None, allow_dynamic=True, strict=False):
    """Constant operand; how in node/init/ovinit/identity/input.  Returns (Val, how)."""
    arr = np.asarray(arr)
    if how is None:
        opts = ["node", "node", "init", "init", "init", "ovinit"]
        if allow_dynamic and not strict:
            opts += ["identity", "input"]
        how = g.pick(opts)
    if how == "node" and g.opset < 12:
        how = "init"  # Constant.value_float(s)/value_int(s) only exist from opset 12 (const_array may choose them)
    if how == "identity":
        c = g.const_array(arr, how=g.pick(["node", "init"]) if g.opset >= 12 else "init")
        r = g.emit("Identity", [c])
        return (r[0] if r else c), how
    if how == "input":
        v = g.add_input(arr.dtype, arr.shape, style="smallint")
        v.arr[...] = arr
        return v, how
    return g.const_array(arr, how=how), how


def _data(g, dtype, shape, tag, pre=3, kinds=("static", "static", "static", "sym_batch", "sym_spatial", "unknown")):
    k = g.pick(list(kinds))
    dims = None
    if k == "sym_batch":
        dims = ["N"] + list(shape[1:])
    elif k == "sym_spatial":
        dims = list(shape[:2]) + [f"S{i}" if g.chance(5) else None for i in range(len(shape) - 2)]
    elif k == "unknown":
        dims = [None] * len(shape)
    x = g.add_input(dtype, shape, style="smallint", dims=dims)
    g.features.add(f"planted:{tag}:x_{k}")
    if pre and g.chance(pre):
        op = "Identity" if np.dtype(dtype).kind != "f" else g.pick(["Identity", "Relu", "Neg"])
        r = g.emit(op, [x])
        if r:
            g.features.add(f"planted:{tag}:x_via_node")
            return r[0]
    return x


def _channels(g):
    C = g.pick([1, 2, 2, 3, 4])
    group = g.pick(_divisors(C)) if g.chance(4) else 1
    Mg = g.pick([1, 2])  # output channels per group
    return C, group, Mg * group


def _same_total(L, k, d, s):
    ek = (k - 1) * d + 1
    return (math.ceil(L / s) - 1) * s + ek - L


def _ref_sizes(xshape, group):
    """onnx.reference computes the SAME_*/VALID padding of spatial dim i from X.shape[i] (batch, channel, ... of the
    per-group slice) instead of X.shape[i+2]; these are the sizes it will use."""
    nd = len(xshape) - 2
    return ([xshape[0] if group == 1 else 1, xshape[1] // group] + list(xshape[2:]))[:nd]


def _geometry(g, xshape, group, auto_pad, pads):
    """(kernel, dilation, stride) per spatial dim such that the conv is computable and onnx.reference is right."""
    sp = list(xshape[2:])
    nd = len(sp)
    ref = _ref_sizes(xshape, group)
    ks, dl, st_ = [], [], []
    for i, L in enumerate(sp):
        Lp = L + (pads[i] + pads[i + nd] if pads else 0)
        combos = []
        for k in (1, 2, 3):
            for d in (1, 2):
                for s in (1, 2, 3):
                    if (k - 1) * d + 1 > Lp or (k == 1 and d == 2):
                        continue
                    if auto_pad == "VALID" and _same_total(ref[i], k, d, s) != 0:
                        continue  # the reference applies SAME padding (from the wrong dim) also for VALID
                    if auto_pad in ("SAME_UPPER", "SAME_LOWER"):
                        t = _same_total(L, k, d, s)
                        if t < 0 or _same_total(ref[i], k, d, s) != t:
                            continue
                    combos += [(k, d, s)] * ((2 if d == 1 else 1) * (2 if s == 1 else 1) * (2 if k > 1 else 1))
        if not combos:
            return None
        k, d, s = g.pick(combos)
        ks.append(k)
        dl.append(d)
        st_.append(s)
    return ks, dl, st_


def _conv_setup(g, nd, xshape, group, aps, pads_choices=("absent", "zeros", "nonzero"), tag=None):
    """Draw auto_pad / pads / kernel / strides / dilations.  Returns (attrs, kernel) or None."""
    ap = g.pick(list(aps))
    pk, pads = "absent", None
    if ap in (None, "NOTSET"):
        pk = g.pick(list(pads_choices))
        if pk == "zeros":
            pads = [0] * (2 * nd)
        elif pk == "nonzero":
            pads = [g.pick([0, 1, 1, 2]) for _ in range(2 * nd)]
    geo = _geometry(g, xshape, group, ap, pads)
    if geo is None:
        return None
    ks, dl, st_ = geo
    attrs = {}
    if g.chance(5):
        attrs["kernel_shape"] = list(ks)
    if any(s != 1 for s in st_) or g.chance(3):
        attrs["strides"] = list(st_)
    if any(d != 1 for d in dl) or g.chance(3):
        attrs["dilations"] = list(dl)
    if group != 1 or g.chance(2):
        attrs["group"] = group
    if ap is not None:
        attrs["auto_pad"] = ap
    if pads is not None:
        attrs["pads"] = pads
    if tag:
        g.features.add(f"planted:{tag}:auto_pad_{ap}")
        g.features.add(f"planted:{tag}:convpads_{pk}")
        if any(d != 1 for d in dl):
            g.features.add(f"planted:{tag}:dilated")
        if any(s != 1 for s in st_):
            g.features.add(f"planted:{tag}:strided")
        if group != 1:
            g.features.add(f"planted:{tag}:group")
        if ap in ("SAME_UPPER", "SAME_LOWER") and any(d != 1 for d in dl):
            g.features.add(f"planted:{tag}:same_dilated")
    return attrs, ks


def _np_conv(x, w, b, strides, dilations, pads, group):
    """Independent N-d convolution (float64 / exact ints) used to validate the reference evaluator's sample."""
    nd = x.ndim - 2
    x = x.astype(np.float64)
    w = w.astype(np.float64)
    xp = np.pad(x, [(0, 0), (0, 0)] + [(pads[i], pads[i + nd]) for i in range(nd)])
    k = w.shape[2:]
    out_sp = []
    for i in range(nd):
        ek = (k[i] - 1) * dilations[i] + 1
        if xp.shape[2 + i] < ek:
            return None
        out_sp.append((xp.shape[2 + i] - ek) // strides[i] + 1)
    N, C = x.shape[:2]
    M = w.shape[0]
    Mg, Cg = M // group, C // group
    y = np.zeros((N, M, *out_sp))
    ax = list(range(1, nd + 2))
    for idx in np.ndindex(*out_sp):
        sl = tuple(slice(idx[i] * strides[i], idx[i] * strides[i] + (k[i] - 1) * dilations[i] + 1, dilations[i]) for i in range(nd))
        patch = xp[(slice(None), slice(None)) + sl]
        for gi in range(group):
            y[(slice(None), slice(gi * Mg, (gi + 1) * Mg)) + idx] = np.tensordot(patch[:, gi * Cg:(gi + 1) * Cg], w[gi * Mg:(gi + 1) * Mg], axes=(ax, ax))
    if b is not None:
        y += b.astype(np.float64).reshape((1, M) + (1,) * nd)
    return y


def _expected_conv(x, w, b, attrs):
    nd = x.ndim - 2
    if w.ndim != x.ndim:
        return None
    strides = attrs.get("strides", [1] * nd)
    dil = attrs.get("dilations", [1] * nd)
    group = attrs.get("group", 1)
    ap = attrs.get("auto_pad", "NOTSET")
    k = w.shape[2:]
    if ap == "NOTSET":
        pads = attrs.get("pads", [0] * (2 * nd))
    elif ap == "VALID":
        pads = [0] * (2 * nd)
    else:
        pb, pe = [], []
        for i in range(nd):
            tot = max(0, _same_total(x.shape[2 + i], k[i], dil[i], strides[i]))
            small, big = tot // 2, tot - tot // 2
            pb.append(small if ap == "SAME_UPPER" else big)
            pe.append(big if ap == "SAME_UPPER" else small)
        pads = pb + pe
    return _np_conv(x, w, b, strides, dil, pads, group)


def _emit_conv(g, op, ins, attrs):
    """Emit Conv / ConvInteger and decline (None) when the reference evaluator's sample differs from _np_conv."""
    y = g.emit(op, ins, **attrs)
    if not y:
        return None
    x, w = ins[0].arr, ins[1].arr
    try:
        if op == "ConvInteger":
            xz = ins[2].arr if len(ins) > 2 and ins[2] is not None else 0
            wz = ins[3].arr if len(ins) > 3 and ins[3] is not None else 0
            exp = _expected_conv(x.astype(np.int64) - np.int64(xz), w.astype(np.int64) - np.int64(wz), None, attrs)
        else:
            b = ins[2].arr if len(ins) > 2 and ins[2] is not None else None
            exp = _expected_conv(x, w, b, attrs)
    except Exception:  # noqa: BLE001
        return None
    if exp is None or exp.shape != y[0].shape or not np.allclose(exp, y[0].arr.astype(np.float64)):
        return None
    return y


def _weight(g, dtype, shape, how=None, tag=None, strict=False):
    arr = make_array(g.seed(), dtype, shape, "smallint")
    w, how = _const(g, arr, how=how, strict=strict)
    if tag:
        g.features.add(f"planted:{tag}:w_{how}")
    return w


def _finish(g, outs, tag, inter=None, strict=False):
    """outs: list[Val] or None.  Sometimes also return an intermediate so that it has an extra consumer."""
    g._single_dev = None
    if not outs:
        return None
    res = list(outs)
    if inter is not None and not strict and g.chance(1, 8):
        res.append(inter)
        g.features.add(f"planted:{tag}:extra_consumer")
    return res


# ----------------------------------------------------------------------------------------------- Pad -> Conv
def _pad_conv(g, integer):
    tag = "pad_convint" if integer else "pad_conv"
    g.features.add(f"planted:{tag}")
    strict = g.chance(4)
    g._single_dev = None
    if strict:
        g.features.add(f"planted:{tag}:strict")
    elif g.chance(5):
        g._single_dev = g.pick(["pads", "pads", "mode", "cv"])
        g.features.add(f"planted:{tag}:single_deviation:{g._single_dev}")
    tight = strict or g._single_dev is not None  # parameters without near-miss classes of their own
    if g.chance(2):
        g.set_opset(g.pick([11, 12, 12] if integer else [10, 10, 11, 12]))
    nd = g.pick([1, 2, 2, 2, 3])
    N = g.pick([1, 2])
    C, group, M = _channels(g)
    sp = [g.pick([3, 4, 5, 6]) for _ in range(nd)]
    rank = nd + 2
    xdt = g.pick([U8, U8, U8, I8]) if integer else F32
    x = _data(g, xdt, (N, C, *sp), tag, pre=1 if tight else 3)

    # ---- pads
    pclass = _opt(g, strict, ["spatial", "spatial", "spatial", "spatial", "zeros"], ["batch_chan", "batch_chan", "batch_chan_end_only", "negative"], name="pads")
    mode = _opt(g, strict, [None, "constant", "constant", "constant"], ["reflect", "edge"] + (["wrap"] if g.opset >= 19 else []), name="mode")
    end_only = pclass == "batch_chan_end_only"  # begin pads of N and C zero, an END pad non-zero
    if end_only:
        pclass = "batch_chan"
    axes = None
    if g.opset >= 18 and g.chance(4):
        ak = g.pick(["all", "spatial", "spatial_neg", "permuted", "subset", "with_batch"])
        if ak == "all":
            axes = list(range(rank))
        elif ak == "spatial":
            axes = list(range(2, rank))
        elif ak == "spatial_neg":
            axes = [a - rank for a in range(2, rank)]
        elif ak == "permuted":
            axes = list(g.draw(st.permutations(list(range(2, rank)))))
            if g.chance(5):
                axes = [a - rank if g.chance(5) else a for a in axes]
        elif ak == "subset":
            axes = [g.pick(list(range(2, rank)))]
        else:
            axes = [0] + list(range(2, rank))
        g.features.add(f"planted:{tag}:axes_{ak}")
    ax_list = axes if axes is not None else list(range(rank))
    begins, ends = [], []
    for a in ax_list:
        a %= rank
        if pclass == "zeros":
            b = e = 0
        elif a < 2:
            b, e = (g.pick([0, 1]), g.pick([0, 1])) if pclass == "batch_chan" else (0, 0)
            if end_only:
                b, e = 0, (1 if a == 0 else g.pick([0, 1]))
            if pclass == "batch_chan" and a == 1 and group != 1:
                b = e = 0  # keep the channel count divisible by group
        else:
            b, e = g.pick([0, 1, 1, 2]), g.pick([0, 1, 1, 2])
            if pclass == "negative" and g.chance(6):
                if g.chance(5):
                    b = -1
                else:
                    e = -1
        begins.append(b)
        ends.append(e)
    if pclass == "batch_chan" and not any(begins[i] or ends[i] for i, a in enumerate(ax_list) if a % rank < 2):
        i0 = [i for i, a in enumerate(ax_list) if a % rank == 0]
        if i0 and end_only:
            ends[i0[0]] = 1
        elif i0:
            begins[i0[0]] = 1
        else:
            pclass = "spatial"
    pads = begins + ends
    padded = list(x.shape)
    for a, b, e in zip(ax_list, begins, ends):
        padded[a % rank] += b + e
    if mode == "reflect" and any(max(b, e) >= x.shape[a % rank] for a, b, e in zip(ax_list, begins, ends)):
        mode = "constant"
    g.features.add(f"planted:{tag}:mode_{mode}")
    g.features.add(f"planted:{tag}:pads_{pclass}")

    # ---- constant_value
    cv_good = ["absent", "absent", "zero", "zero"] + ([] if integer else ["negzero"])
    cv_kind = _opt(g, strict, cv_good, ["nonzero", "nonzero", "dyn_zero"], name="cv")
    if axes is not None and cv_kind == "absent" and g.chance(5):
        cv_kind = "empty"
    g.features.add(f"planted:{tag}:cv_{cv_kind}")

    if g.opset <= 10:
        attrs = {"pads": pads}
        if mode is not None:
            attrs["mode"] = mode
        if cv_kind in ("zero", "negzero"):
            attrs["value"] = 0.0 if cv_kind == "zero" else -0.0
        elif cv_kind == "nonzero":
            attrs["value"] = float(g.pick([1.0, -2.0, 0.5]))
        g.features.add(f"planted:{tag}:pad_attr_form")
        p = g.emit("Pad", [x], **attrs)
    else:
        pv, phow = _const(g, np.asarray(pads, dtype=np.int64), strict=tight)
        g.features.add(f"planted:{tag}:padsop_{phow}")
        ins = [x, pv]
        cv = None
        if cv_kind == "zero":
            cv, _ = _const(g, np.asarray(0, dtype=xdt), allow_dynamic=False)
        elif cv_kind == "negzero":
            cv, _ = _const(g, np.asarray(-0.0, dtype=xdt), allow_dynamic=False)
        elif cv_kind == "nonzero":
            cv, _ = _const(g, np.asarray(g.pick([1, 2, 3]) if integer else g.pick([1.0, -2.0, 0.5, 1e-6]), dtype=xdt), allow_dynamic=False)
        elif cv_kind == "dyn_zero":
            cv, _ = _const(g, np.asarray(0, dtype=xdt), how="identity")
        if cv is not None or axes is not None:
            ins.append(cv)
        if axes is not None:
            adt = np.int64  # int32 axes are allowed by the schema but onnx shape inference (checker) rejects them
            av, ahow = _const(g, np.asarray(axes, dtype=adt), how=_opt(g, tight, ["node", "init", "init", "ovinit"], ["identity"]))
            g.features.add(f"planted:{tag}:axesop_{ahow}")
            ins.append(av)
        attrs = {} if mode is None else {"mode": mode}
        p = g.emit("Pad", ins, **attrs)
    if not p:
        return None
    p = p[0]
    if any(d < 1 for d in p.shape) or list(p.shape) != padded:
        return None
    Cp = p.shape[1]
    if Cp % group:
        return None

    # ---- conv
    aps = [None, None, None, "NOTSET", "NOTSET"] + ([] if tight else ["VALID", "SAME_UPPER", "SAME_LOWER"])
    setup = _conv_setup(g, nd, p.shape, group, aps, tag=tag)
    if setup is None:
        return None
    attrs, ks = setup
    wshape = (M, Cp // group, *ks)
    if integer:
        wdt = g.pick([U8, U8, I8])
        w = _weight(g, wdt, wshape, tag=tag)
        ins = [p, w]
        xz = g.pick(["absent", "absent", "zero", "nonzero", "nonzero", "empty"])
        wz = g.pick(["absent", "absent", "zero", "nonzero"])
        xzv = None
        if xz == "zero":
            xzv, _ = _const(g, np.asarray(0, dtype=xdt), allow_dynamic=False)
        elif xz == "nonzero":
            xzv, _ = _const(g, np.asarray(g.pick([1, 2, 3]), dtype=xdt), allow_dynamic=False)
        wzv = None
        if wz == "zero":
            wzv, _ = _const(g, np.asarray(0, dtype=wdt), allow_dynamic=False)
        elif wz == "nonzero":
            wzv, _ = _const(g, np.asarray(g.pick([1, 2]), dtype=wdt), allow_dynamic=False)
        if xz == "empty" and wzv is None:
            xz = "absent"
        g.features.add(f"planted:{tag}:xzp_{xz}")
        g.features.add(f"planted:{tag}:wzp_{wz}")
        if xzv is not None or wzv is not None:
            ins.append(xzv)
        if wzv is not None:
            ins.append(wzv)
        y = _emit_conv(g, "ConvInteger", ins, attrs)
    else:
        w = _weight(g, F32, wshape, tag=tag)
        ins = [p, w]
        if g.chance(5):
            b, _ = _const(g, make_array(g.seed(), F32, (M,), "smallint"))
            ins.append(b)
            g.features.add(f"planted:{tag}:bias")
        y = _emit_conv(g, "Conv", ins, attrs)
    return _finish(g, y, tag, inter=p, strict=tight)


@register("fuse_pad_into_conv_rule")
def host_pad_conv(g):
    return _pad_conv(g, False)


@register("fuse_pad_into_conv_integer_rule")
def host_pad_conv_integer(g):
    return _pad_conv(g, True)


# ----------------------------------------------------------------------------------------------- auto_pad normalisation
def _autopad(g, integer):
    tag = "autopad_int" if integer else "autopad"
    g.features.add(f"planted:{tag}")
    strict = g.chance(5)
    if strict:
        g.features.add(f"planted:{tag}:strict")
    nd = g.pick([1, 2, 2, 2, 3])
    N = g.pick([1, 2])
    C, group, M = _channels(g)
    sp = [g.pick([3, 4, 5, 6]) for _ in range(nd)]
    xdt = g.pick([U8, U8, I8]) if integer else F32
    kinds = ("static", "static", "sym_batch") if strict else ("static", "static", "static", "sym_batch", "sym_spatial", "unknown")
    x = _data(g, xdt, (N, C, *sp), tag, pre=1 if strict else 3, kinds=kinds)
    aps = ["VALID", "SAME_UPPER", "SAME_UPPER", "SAME_UPPER", "SAME_LOWER", "SAME_LOWER", "SAME_LOWER"] + ([] if strict else [None, "NOTSET"])
    setup = _conv_setup(g, nd, x.shape, group, aps, tag=tag)
    if setup is None:
        return None
    attrs, ks = setup
    wshape = (M, C // group, *ks)
    wdt = g.pick([U8, U8, I8]) if integer else F32
    whow = g.pick(["node", "init", "init", "init", "ovinit", "input", "input_sym"])
    if whow == "input_sym":
        w = g.add_input(wdt, wshape, style="smallint", dims=[M, C // group] + [f"K{i}" for i in range(nd)])
        g.features.add(f"planted:{tag}:w_input_sym")
    else:
        w = _weight(g, wdt, wshape, how=whow, tag=tag)
    ins = [x, w]
    if integer:
        if g.chance(4):
            ins.append(g.const_array(np.asarray(g.pick([0, 1, 2]), dtype=xdt)))
            if g.chance(5):
                ins.append(g.const_array(np.asarray(g.pick([0, 1]), dtype=wdt)))
        y = _emit_conv(g, "ConvInteger", ins, attrs)
    else:
        if g.chance(5):
            ins.append(g.const_array(make_array(g.seed(), F32, (M,), "smallint")))
        y = _emit_conv(g, "Conv", ins, attrs)
    if not y:
        return None
    if g.chance(6):
        # conv output becomes an intermediate value: its shape is known to the rule only through value_info
        r = g.emit("Identity" if integer else g.pick(["Relu", "Identity", "Neg"]), [y[0]])
        if r:
            g.features.add(f"planted:{tag}:out_intermediate")
            return r
    g.features.add(f"planted:{tag}:out_graph_output")
    return y


@register("normalize_pad_format_conv_rule")
def host_autopad(g):
    return _autopad(g, False)


@register("normalize_pad_format_conv_integer_rule")
def host_autopad_integer(g):
    return _autopad(g, True)


# ----------------------------------------------------------------------------------------------- affine fusions
_SO_GOOD = ["scalar", "scalar", "one", "ones_rank", "ones_rank", "ones_rank_m1"]
_SO_BAD = ["per_channel", "per_channel_m1", "per_channel_equal"]


def _so_const(g, dtype, val, kind, rank, C, tag, which, strict):
    """scale / offset operand of the given shape class."""
    if kind == "scalar":
        arr = np.asarray(val, dtype=dtype)
    elif kind == "one":
        arr = np.full((1,), val, dtype=dtype)
    elif kind == "ones_rank":
        arr = np.full((1,) * rank, val, dtype=dtype)
    elif kind == "ones_rank_m1":
        arr = np.full((1,) * (rank - 1), val, dtype=dtype)
    elif kind == "ones_rank_p1":
        arr = np.full((1,) * (rank + 1), val, dtype=dtype)
    elif kind == "ones_2":
        arr = np.full((1, 1), val, dtype=dtype)
    elif kind == "per_channel":
        arr = (np.arange(C, dtype=np.float64) + val).astype(dtype).reshape((1, C) + (1,) * (rank - 2))
    elif kind == "per_channel_m1":
        arr = (np.arange(C, dtype=np.float64) * 2 - val).astype(dtype).reshape((C,) + (1,) * (rank - 2))
    else:  # per_channel_equal
        arr = np.full((1, C) + (1,) * (rank - 2), val, dtype=dtype)
    v, how = _const(g, arr, how=_opt(g, strict, ["node", "node", "init", "init", "ovinit"], ["identity"]))
    g.features.add(f"planted:{tag}:{which}_{kind}")
    g.features.add(f"planted:{tag}:{which}_{how}")
    return v


def _affine(g, x, dtype, rank, C, tag, strict, extra_shapes=()):
    sval = g.pick([2.0, 0.5, -1.0, 3.0, 0.0, 0.1, 1.0])
    oval = g.pick([1.0, -2.0, 0.5, 0.0, 3.0, 0.3])
    s = _so_const(g, dtype, sval, _opt(g, strict, _SO_GOOD + list(extra_shapes), _SO_BAD), rank, C, tag, "s", strict)
    o = _so_const(g, dtype, oval, _opt(g, strict, _SO_GOOD + list(extra_shapes), _SO_BAD), rank, C, tag, "o", strict)
    m = g.emit("Mul", [x, s] if g.chance(7) else [s, x])
    if not m:
        return None, None
    a = g.emit("Add", [m[0], o] if g.chance(7) else [o, m[0]])
    if not a:
        return None, None
    return m[0], a[0]


def _wb(g, dtype, wshape, M, tag, strict):
    w = _weight(g, dtype, wshape, how=_opt(g, strict, ["node", "init", "init", "init", "ovinit"], ["input"]), tag=tag)
    bk = _opt(g, strict, ["const"] * 6, ["absent", "empty", "input", "identity"])
    g.features.add(f"planted:{tag}:b_{bk}")
    ins = [w]
    if bk == "const":
        b, _ = _const(g, make_array(g.seed(), dtype, (M,), "smallint"), allow_dynamic=False)
        ins.append(b)
    elif bk in ("input", "identity"):
        b, _ = _const(g, make_array(g.seed(), dtype, (M,), "smallint"), how=bk)
        ins.append(b)
    elif bk == "empty":
        ins.append(None)
    return ins


_AFFINE_CONV_PADS = ["zeros", "absent", "absent_same", "autopad_notset", "nonzero", "absent_valid", "zeros", "autopad_same", "absent_same", "autopad_valid"]


@register("affine_conv_fusion_rule")
def host_affine_conv(g):
    tag = "affine_conv"
    g.features.add(f"planted:{tag}")
    pk_sc = scenario(g, _AFFINE_CONV_PADS)
    strict = g.chance(7) if pk_sc is None else (pk_sc in ("zeros", "autopad_notset") and g.chance(5))
    if strict:
        g.features.add(f"planted:{tag}:strict")
    nd = _opt(g, strict, [2, 2, 2, 2, 2, 2], [1, 3])
    dtype = F32 if g.chance(9) else F64
    N = g.pick([1, 2])
    C, group, M = _channels(g)
    sp = [g.pick([2, 3, 4, 5]) for _ in range(nd)]
    x = _data(g, dtype, (N, C, *sp), tag, pre=1)
    rank = nd + 2
    mul, aff = _affine(g, x, dtype, rank, C, tag, strict)
    if aff is None or aff.shape != x.shape:
        return None
    # autopad_valid / autopad_same = auto_pad together with an explicit (zero) pads attribute: accepted by onnx.checker and
    # onnx.reference, forbidden by the operator spec text and refused by onnxruntime -> rare, reference-only
    # absent_same / absent_valid: no pads attribute at all and padding requested through auto_pad (what exporters emit for "same" convolutions)
    pk = pk_sc
    if pk is None:
        pk = _opt(g, strict, ["zeros", "zeros", "zeros", "zeros", "zeros", "autopad_notset"], ["absent", "absent_same", "absent_valid", "nonzero", "autopad_valid", "autopad_same"])
    ap = {"autopad_valid": "VALID", "absent_valid": "VALID", "autopad_notset": "NOTSET", "autopad_same": g.pick(["SAME_UPPER", "SAME_LOWER"]),
          "absent_same": g.pick(["SAME_UPPER", "SAME_LOWER"])}.get(pk)
    pads = None
    if pk == "nonzero":
        pads = [g.pick([0, 1, 1]) for _ in range(2 * nd)]
        if not any(pads):
            pads[0] = 1
    geo = _geometry(g, x.shape, group, ap, pads)
    if geo is None:
        return None
    ks, dl, st_ = geo
    attrs = {}
    if g.chance(5):
        attrs["kernel_shape"] = list(ks)
    if any(s != 1 for s in st_) or g.chance(3):
        attrs["strides"] = list(st_)
    if any(d != 1 for d in dl) or g.chance(3):
        attrs["dilations"] = list(dl)
    if group != 1 or g.chance(2):
        attrs["group"] = group
    if ap:
        attrs["auto_pad"] = ap
    if not pk.startswith("absent"):
        attrs["pads"] = pads if pads is not None else [0] * (2 * nd)
    g.features.add(f"planted:{tag}:pads_{pk}")
    g.features.add(f"planted:{tag}:nd{nd}")
    if group != 1:
        g.features.add(f"planted:{tag}:group")
    ins = [aff] + _wb(g, dtype, (M, C // group, *ks), M, tag, strict)
    # the explicit zero pads are what the runtimes use only when auto_pad is NOTSET; _emit_conv's check follows auto_pad
    y = _emit_conv(g, "Conv", ins, attrs)
    return _finish(g, y, tag, inter=g.pick([mul, aff]), strict=strict)


host_affine_conv.strata = len(_AFFINE_CONV_PADS)


@register("conv_affine_fusion_rule")
def host_conv_affine(g):
    tag = "conv_affine"
    g.features.add(f"planted:{tag}")
    strict = g.chance(6)
    if strict:
        g.features.add(f"planted:{tag}:strict")
    nd = g.pick([1, 2, 2, 2, 3])
    dtype = F32 if g.chance(9) else F64
    N = g.pick([1, 2])
    C, group, M = _channels(g)
    sp = [g.pick([2, 3, 4, 5]) for _ in range(nd)]
    x = _data(g, dtype, (N, C, *sp), tag, pre=1)
    aps = [None, None, None, None, "NOTSET", "VALID", "SAME_UPPER", "SAME_LOWER"]
    setup = _conv_setup(g, nd, x.shape, group, aps, tag=tag)
    if setup is None:
        return None
    attrs, ks = setup
    g.features.add(f"planted:{tag}:nd{nd}")
    ins = [x] + _wb(g, dtype, (M, C // group, *ks), M, tag, strict)
    y = _emit_conv(g, "Conv", ins, attrs)
    if not y:
        return None
    mul, aff = _affine(g, y[0], dtype, nd + 2, M, tag, strict, extra_shapes=["ones_rank_p1", "ones_2"])
    if aff is None:
        return None
    return _finish(g, [aff], tag, inter=g.pick([mul, y[0]]), strict=strict)


# ----------------------------------------------------------------------------------------------- BatchNormalization fusion
_BN_BAD_HOW = ["node", "ovinit", "input", "identity"]


def _bn(g, y, M, tag, inter, strict):
    dtype = F32
    hows = ["init"] * 5 + ([] if strict else _BN_BAD_HOW)
    same_how = g.chance(8)
    how0 = g.pick(hows)
    if same_how and g.chance(7):
        how0 = "init"

    def how():
        return how0 if same_how else g.pick(hows)

    gamma_arr = make_array(g.seed(), dtype, (M,), "smallint")
    if g.chance(7):
        gamma_arr = np.where(gamma_arr == 0, 1, gamma_arr).astype(dtype)
    beta_arr = make_array(g.seed(), dtype, (M,), "smallint")
    mean_arr = make_array(g.seed(), dtype, (M,), "smallint")
    vk = g.pick(["pos", "pos", "pos", "ones", "with_zero", "tiny"])
    var_arr = make_array(g.seed(), dtype, (M,), "positive")
    if vk == "ones":
        var_arr = np.ones((M,), dtype)
    elif vk == "with_zero":
        var_arr[0] = 0.0
    elif vk == "tiny":
        var_arr = (var_arr * 1e-6).astype(dtype)
    g.features.add(f"planted:{tag}:var_{vk}")
    hs = []
    params = []
    shared = g.chance(1)
    for i, arr in enumerate((gamma_arr, beta_arr, mean_arr, var_arr)):
        if shared and i in (1, 2) and params and params[0].kind != "node":
            params.append(params[0] if i == 1 else params[1])  # one tensor used for several BN inputs
            continue
        v, h = _const(g, arr, how=how())
        hs.append(h)
        params.append(v)
    if shared:
        g.features.add(f"planted:{tag}:bn_shared_param")
    for h in sorted(set(hs)):
        g.features.add(f"planted:{tag}:bnparam_{h}")
    attrs = {}
    ek = g.pick(["absent", "absent", "1e-5", "1e-3", "0.1", "1.0"])
    if ek != "absent":
        attrs["epsilon"] = float(ek)
    g.features.add(f"planted:{tag}:eps_{ek}")
    if g.chance(2):
        attrs["momentum"] = g.pick([0.5, 0.99])
    n_out = 1
    if g.opset >= 14:
        tm = g.pick([None, None, None, None, 0, 0, 1])
        if tm is not None:
            attrs["training_mode"] = tm
        if tm == 1:
            n_out = 3  # the checker's shape inference demands 3 outputs in training mode
        g.features.add(f"planted:{tag}:training_mode_{tm}")
    r = g.emit("BatchNormalization", [y] + params, n_out=n_out, **attrs)
    if not r:
        return None
    return _finish(g, r[:1], tag, inter=inter, strict=strict)


def _conv_bias_for_bn(g, M, tag, strict, force_absent=False):
    bk = _opt(g, strict, ["absent", "absent", "init", "init", "init"], ["node", "ovinit", "input", "identity", "empty"])
    if force_absent:
        bk = "absent"
    g.features.add(f"planted:{tag}:b_{bk}")
    if bk == "absent":
        return []
    if bk == "empty":
        return [None]
    b, _ = _const(g, make_array(g.seed(), F32, (M,), "smallint"), how=bk)
    return [b]


@register("fuse_batchnorm_into_conv_rule")
def host_bn_conv(g):
    tag = "bn_conv"
    g.features.add(f"planted:{tag}")
    strict = g.chance(5)
    if strict:
        g.features.add(f"planted:{tag}:strict")
    nd = g.pick([1, 2, 2, 2, 3])
    N = g.pick([1, 2])
    C, group, M = _channels(g)
    sp = [g.pick([2, 3, 4, 5]) for _ in range(nd)]
    x = _data(g, F32, (N, C, *sp), tag, pre=1)
    aps = [None, None, None, None, "NOTSET", "VALID", "SAME_UPPER", "SAME_LOWER"]
    setup = _conv_setup(g, nd, x.shape, group, aps, tag=tag)
    if setup is None:
        return None
    attrs, ks = setup
    g.features.add(f"planted:{tag}:nd{nd}")
    w = _weight(g, F32, (M, C // group, *ks), how=_opt(g, strict, ["init"] * 5, _BN_BAD_HOW), tag=tag)
    ins = [x, w] + _conv_bias_for_bn(g, M, tag, strict)
    y = _emit_conv(g, "Conv", ins, attrs)
    if not y:
        return None
    extra = []
    if not strict and g.chance(1):
        y2 = g.emit("Conv", [x, w], **attrs)  # the same weight feeds a second Conv
        if y2:
            extra = y2
            g.features.add(f"planted:{tag}:shared_weight")
    r = _bn(g, y[0], M, tag, y[0], strict)
    return (r + extra) if r else None


def _convT_setup(g, nd, sp, tag):
    """Channels + attributes for ConvTranspose, restricted to what onnx.reference evaluates correctly."""
    C = g.pick([1, 2, 2, 3, 4])
    gk = g.pick(["g1"] * 6 + ["depthwise"] * 3 + ["grouped"])
    if gk == "g1":
        group, M = 1, g.pick([1, 2, 3])
    elif gk == "depthwise":
        group, M = C, C
    else:
        group = g.pick(_divisors(C))
        M = group * g.pick([1, 2])
    ks = [g.pick([1, 2, 3]) for _ in range(nd)]
    st_ = [g.pick([1, 1, 2, 3]) for _ in range(nd)]
    dl = [g.pick([1, 1, 1, 2]) for _ in range(nd)]
    attrs = {}
    if g.chance(5):
        attrs["kernel_shape"] = list(ks)
    if any(s != 1 for s in st_) or g.chance(3):
        attrs["strides"] = list(st_)
    if any(d != 1 for d in dl) or g.chance(3):
        attrs["dilations"] = list(dl)
    if group != 1 or g.chance(2):
        attrs["group"] = group
    kind = g.pick(["plain", "plain", "plain", "pads", "pads", "output_padding", "output_shape", "auto_pad_NOTSET", "auto_pad_VALID", "auto_pad_SAME"])
    if kind == "pads":
        pads_b, pads_e = [], []
        for i in range(nd):
            full = (sp[i] - 1) * st_[i] + (ks[i] - 1) * dl[i] + 1
            pb = g.pick([0, 1]) if full > 2 else 0
            pe = g.pick([0, 1]) if full - pb > 1 else 0
            pads_b.append(pb)
            pads_e.append(pe)
        attrs["pads"] = pads_b + pads_e
    elif kind == "output_padding":
        dl = [1] * nd  # onnx.reference fails on output_padding with dilations
        attrs.pop("dilations", None)
        attrs["output_padding"] = [g.pick([0, 1]) if st_[i] > 1 else 0 for i in range(nd)]
        attrs["strides"] = list(st_)
    elif kind == "output_shape":
        attrs["output_shape"] = [(sp[i] - 1) * st_[i] + (ks[i] - 1) * dl[i] + 1 for i in range(nd)]
    elif kind.startswith("auto_pad"):
        ap = kind.split("_")[-1]
        attrs["auto_pad"] = g.pick(["SAME_UPPER", "SAME_LOWER"]) if ap == "SAME" else ap
    g.features.add(f"planted:{tag}:{kind}")
    if group != 1:
        g.features.add(f"planted:{tag}:group_{gk}")
    if any(d != 1 for d in dl):
        g.features.add(f"planted:{tag}:dilated")
    return C, group, M, attrs, ks


@register("fuse_batchnorm_into_conv_transpose_rule")
def host_bn_conv_transpose(g):
    tag = "bn_convT"
    g.features.add(f"planted:{tag}")
    strict = g.chance(5)
    if strict:
        g.features.add(f"planted:{tag}:strict")
    nd = g.pick([1, 2, 2, 2, 3])
    N = g.pick([1, 2])
    sp = [g.pick([2, 3, 4]) for _ in range(nd)]
    C, group, M, attrs, ks = _convT_setup(g, nd, sp, tag)
    x = _data(g, F32, (N, C, *sp), tag, pre=1)
    g.features.add(f"planted:{tag}:nd{nd}")
    w = _weight(g, F32, (C, M // group, *ks), how=_opt(g, strict, ["init"] * 5, _BN_BAD_HOW), tag=tag)
    # onnx.reference mis-applies the bias of grouped ConvTranspose: mostly no bias there
    ins = [x, w] + _conv_bias_for_bn(g, M, tag, strict, force_absent=group != 1 and g.chance(8))
    y = g.emit("ConvTranspose", ins, **attrs)
    if not y:
        return None
    if y[0].shape[1] != M or any(d < 1 for d in y[0].shape):
        return None
    extra = []
    if not strict and g.chance(1):
        y2 = g.emit("ConvTranspose", [x, w], **attrs)
        if y2:
            extra = y2
            g.features.add(f"planted:{tag}:shared_weight")
    r = _bn(g, y[0], M, tag, y[0], strict)
    return (r + extra) if r else None


# ----------------------------------------------------------------------------------------------- remove optional bias
def _zero_bias(g, dtype, M, tag):
    """Bias operand for remove_optional_bias hosts.  Returns list to append to the inputs (maybe empty / [None])."""
    dtype = np.dtype(dtype)
    if dtype.kind == "f":
        vk = g.pick(["zeros", "zeros", "zeros", "zeros", "negzero", "mixed_zero", "tiny", "denormal", "one_nonzero", "absent", "empty"])
    else:
        vk = g.pick(["zeros", "zeros", "zeros", "zeros", "one_nonzero", "nonzero", "absent"])
    g.features.add(f"planted:{tag}:b_{vk}")
    if vk == "absent":
        return []
    if vk == "empty":
        return [None]
    arr = np.zeros((M,), dtype=dtype)
    if vk == "negzero":
        arr[...] = -0.0
    elif vk == "mixed_zero":
        arr[::2] = -0.0
    elif vk == "tiny":
        arr[g.pick(list(range(M)))] = g.pick([1e-30, 1e-9, -1e-9])
    elif vk == "denormal":
        arr[g.pick(list(range(M)))] = 1e-45 if dtype == F32 else 5e-324
    elif vk == "one_nonzero":
        arr[g.pick(list(range(M)))] = g.pick([1, -2])
    elif vk == "nonzero":
        arr[...] = g.pick([1, 3])
    b, how = _const(g, arr, how=g.pick(["node", "node", "init", "init", "init", "ovinit", "ovinit", "input", "identity"]))
    g.features.add(f"planted:{tag}:bop_{how}")
    return [b]


@register("remove_optional_bias_from_conv_rule")
def host_bias_conv(g):
    tag = "bias_conv"
    g.features.add(f"planted:{tag}")
    nd = g.pick([1, 2, 2, 2, 3])
    N = g.pick([1, 2])
    C, group, M = _channels(g)
    sp = [g.pick([2, 3, 4, 5]) for _ in range(nd)]
    x = _data(g, F32, (N, C, *sp), tag, pre=1)
    aps = [None, None, None, None, "NOTSET", "VALID", "SAME_UPPER", "SAME_LOWER"]
    setup = _conv_setup(g, nd, x.shape, group, aps, tag=tag)
    if setup is None:
        return None
    attrs, ks = setup
    w = _weight(g, F32, (M, C // group, *ks), tag=tag)
    y = _emit_conv(g, "Conv", [x, w] + _zero_bias(g, F32, M, tag), attrs)
    return _finish(g, y, tag)


@register("remove_optional_bias_from_conv_transpose_rule")
def host_bias_conv_transpose(g):
    tag = "bias_convT"
    g.features.add(f"planted:{tag}")
    nd = g.pick([1, 2, 2, 2, 3])
    N = g.pick([1, 2])
    sp = [g.pick([2, 3, 4]) for _ in range(nd)]
    C, group, M, attrs, ks = _convT_setup(g, nd, sp, tag)
    x = _data(g, F32, (N, C, *sp), tag, pre=1)
    w = _weight(g, F32, (C, M // group, *ks), tag=tag)
    y = g.emit("ConvTranspose", [x, w] + _zero_bias(g, F32, M, tag), **attrs)
    if not y or any(d < 1 for d in y[0].shape) or y[0].shape[1] != M:
        return None
    return _finish(g, y, tag)


@register("remove_optional_bias_from_qlinear_conv_rule")
def host_bias_qlinear_conv(g):
    tag = "bias_qconv"
    g.features.add(f"planted:{tag}")
    nd = g.pick([1, 2, 2, 2, 3])
    N = g.pick([1, 2])
    C, group, M = _channels(g)
    sp = [g.pick([2, 3, 4, 5]) for _ in range(nd)]
    xdt = g.pick([U8, U8, I8])
    wdt = g.pick([U8, I8, I8]) if xdt == U8 else I8
    x = _data(g, xdt, (N, C, *sp), tag, pre=1)
    aps = [None, None, None, None, "NOTSET", "VALID", "SAME_UPPER", "SAME_LOWER"]
    setup = _conv_setup(g, nd, x.shape, group, aps, tag=tag)
    if setup is None:
        return None
    attrs, ks = setup
    c = lambda a: g.const_array(np.asarray(a))  # noqa: E731
    x_scale = c(np.float32(g.pick([1.0, 0.5, 0.25])))
    x_zp = c(np.asarray(g.pick([0, 1, 2]), dtype=xdt))
    w = _weight(g, wdt, (M, C // group, *ks), how=g.pick(["node", "init", "init", "ovinit"]), tag=tag)
    if g.chance(3) and (nd == 2 or g.chance(1)):  # onnx.reference handles per-channel scales only for 2-D convs
        w_scale = c(np.asarray([g.pick([1.0, 0.5, 2.0]) for _ in range(M)], dtype=np.float32))
        w_zp = c(np.zeros((M,), dtype=wdt))
        g.features.add(f"planted:{tag}:per_channel")
    else:
        w_scale = c(np.float32(g.pick([1.0, 0.5, 2.0])))
        w_zp = c(np.asarray(g.pick([0, 0, 1]) if wdt == U8 else 0, dtype=wdt))
    y_scale = c(np.float32(g.pick([1.0, 2.0, 0.5])))
    y_zp = c(np.asarray(g.pick([0, 1, 3]), dtype=xdt))
    ins = [x, x_scale, x_zp, w, w_scale, w_zp, y_scale, y_zp] + _zero_bias(g, I32, M, tag)
    y = g.emit("QLinearConv", ins, **attrs)
    if not y:
        return None
    # onnx.reference's QLinearConv is wrong for per-channel scales outside 2-D and inherits the Conv auto_pad defects:
    # validate the sample with an independent computation
    try:
        nd_ = x.arr.ndim - 2
        wz = w_zp.arr.astype(np.int64).reshape((-1,) + (1,) * (nd_ + 1)) if w_zp.arr.ndim else np.int64(w_zp.arr)
        b = ins[8].arr if len(ins) > 8 and ins[8] is not None else None
        acc = _expected_conv(x.arr.astype(np.int64) - np.int64(x_zp.arr), w.arr.astype(np.int64) - wz, b, attrs)
        ws = w_scale.arr.astype(np.float64).reshape((1, -1) + (1,) * nd_) if w_scale.arr.ndim else float(w_scale.arr)
        v = acc * (float(x_scale.arr) * ws / float(y_scale.arr))
        info = np.iinfo(xdt)
        # exact .5 ties are rounded differently by the runtimes: accept either direction
        lo = np.clip(np.ceil(v - 0.5) + float(y_zp.arr), info.min, info.max)
        hi = np.clip(np.floor(v + 0.5) + float(y_zp.arr), info.min, info.max)
        got = y[0].arr.astype(np.float64)
    except Exception:  # noqa: BLE001
        return None
    if v.shape != y[0].shape or not np.all((got >= lo) & (got <= hi)):
        return None
    return _finish(g, y, tag)
