"""Hosts for the module-level rules of onnxscript/rewriter/rules/fusion: _layer_norm, _rms_normalization, _rotary_embedding, _gqa.

Every planter draws ONE "deviation class" (dev) per host: "none" = textbook instance with only semantics-preserving knobs
varied, a named class = only that group of knobs leaves the textbook, "any" = all groups drawn independently.

_layer_norm._layer_norm_rule / layer_normalization_ruleset   (host_layer_norm; optional trailing Add(bias) for the set)
  drawn: host opset 17 (ReduceMean axes attribute: no match expected) / 18..23; x f32/f64/f16, rank 2..4, dims 1..4, leading dims
  static / symbolic / anonymous; axes [-1] / [rank-1] / [-2] / [0]; keepdims 1 / absent / 0 (square x only); second ReduceMean with
  other axes; Mul(d,d) / Pow(d, 2 as float|int64|2.0000001|3); Reciprocal+Mul / Div; operand order of the commutative nodes;
  epsilon value 1e-5 / 1e-12 / 0.1 / 0 / -1e-3, shape [] [1] [1,1] [1]*(rank+1) (rank-extending) [D] (not singleton), as Constant /
  initializer / overridable / graph input; scale shape [D] / [] / [1] / [1..1,D] / x.shape[-2:] / x.shape / [1]+x.shape... / [S,1],
  as input / Constant / initializer; extra consumer of mean / deviation / normalized; bias Add with bias [D] / [] / x.shape / [S,D].
  NOT enumerated: bfloat16, axes given as attribute at opset 18+, (illegal), zero-size dims, multi-axis normalisation.
_layer_norm._layer_norm_with_bias_rule / layer_normalization_ruleset   (host_layer_norm_bias: LayerNormalization op + Add)
  drawn: opset 17..23; x f32/f64/f16 rank 2..4; axis -1 / -2 / 1 / 0 / absent; epsilon absent / 1e-5 / 0.1; stash_type absent / 1;
  1..3 outputs (Mean / InvStdDev become graph outputs); existing third input B (no match expected); bias shape x.shape[axis:] /
  [D] (when axis != -1) / [] / [1] / x.shape / [1]+x.shape, as input / Constant / initializer; Add operand order; normalized output
  with a second consumer.
  NOT enumerated: bfloat16, scale not of shape x.shape[axis:].
_rms_normalization._rule1 / _rule2 / rms_normalization_ruleset   (host_rms_norm)
  drawn: opset 17 (attribute axes) / 18..22 (RMSNormalization does not exist there) / 23; x f32/f16/f64; leading Cast to
  f32 / f64 / f16 / absent; Pow exponent 2.0 / int64 2 / 3.0; ReduceMean attrs keepdims=1,noop_with_empty_axes=0 explicit / absent,
  axes [-1] / [rank-1] / [-2]; epsilon as for layer norm (plus float64 / float16 typed); Reciprocal+Mul / Div; trailing Cast to the
  scale dtype / absent; scale dtype f32/f16/f64 (legal for the Mul), shape as for layer norm; Mul(normalized, scale) (rule1) /
  Mul(scale, normalized) (rule2); extra consumer of rms / normalized.
  NOT enumerated: bfloat16, zero-size dims.
_rotary_embedding._rule / rotary_embedding_rules   (host_rotary)
  drawn: opset 13..22 (RotaryEmbedding does not exist there) / 23; x f32/f16/f64 (f64 is outside RotaryEmbedding's type list),
  x [B,H,S,D] B 1..2 H 1..3 S 1..3 D 2/4/6, dims B,S (and as near-miss H, D) symbolic; freqs [B,S,D/2] / [1,S,D/2] / [S,D/2] (when it
  broadcasts) / [B,1,D/2]; freqs as input / Constant; Slice ends D / INT64_MAX / D+3, uneven split, axes [3] / [-1], steps [1];
  Unsqueeze axes [1] / [-3]; Concat axis -1 / 2 / 3; operand order of Mul / Add; swapped halves (different function, no match
  expected); cos_4d with a second consumer.
  NOT enumerated: bfloat16, odd head size (impossible with Concat(freqs, freqs) unless D == 1: zero-size slice), 3-D x, interleaved.
_rotary_embedding._partial_embedding_rule / partial_embedding_rules   (host_partial_rotary; host opset 23 only: needs the op)
  drawn: x f32/f16 [B,H,S,D], rotary dim r 2/4, D = r+1..r+4 (odd and even), end1/start2 = r / r-D (negative, same position) /
  mismatched; second Slice end INT64_MAX / D; RotaryEmbedding attrs num_heads absent / H, interleaved absent / 0 / 1,
  rotary_embedding_dim absent / r; cos/sin [B,S,r/2] or [maxpos,r/2] with constant position_ids; Concat axis -1 / 3; rope output
  with a second consumer.
  NOT enumerated: bfloat16, 3-D x (Slice axis 3 illegal), position_ids as graph input (random feeds leave the cache).
_gqa._basic_gqa_rule / gqa_rules   (host_gqa; host opset 23 only: needs Attention)
  drawn: f32/f16/f64; B 1..2, Hkv 1..2, G 1..3, S 1..3, P 1..3, D 2/4, Dv = D or D+1 (no match expected), kv sequence = S or S+1
  (no match expected); B / S / P symbolic; Expand shape constant [B,Hkv,G,T,D] / with 1s / built from Shape+Concat; Reshape shape
  constant / with 0 and -1 / built from Shape+Concat; "fold" variant (no expansion, Reshape moves half of the sequence into the head
  dim: shapes still pass the rule's check); Concat axis -2 / 2; Unsqueeze axes 0-d 2 (the only form the pattern literal matches) / 1-D [2] / 0-d -3; mask absent / bool [S,T] / float [S,T] /
  [1,1,S,T]; Attention attrs is_causal absent/0/1, scale, softcap, qk_matmul_output_mode; present key/value Concat outputs also
  graph outputs or not, Reshape output / Shape(present_key)[2:3] as extra graph output.
  NOT enumerated: bfloat16, 3-D (packed-head) inputs, zero-length past, Attention with 4 outputs.
"""
from __future__ import annotations

import numpy as np

from vf.modelgen import BOOL, F16, F32, F64, I64, make_array
from vf.rulehosts.plant import register
from vf.rulehosts.plant_misc import _Rng

MAX_INT64 = 9223372036854775807
ONNX_DT = {F32: 1, F16: 10, F64: 11}


def _i64(g, vals, how=None, rr=None):
    return g.const_array(np.asarray(vals, dtype=np.int64), how=how or (rr.pick(["node", "init"]) if rr else "init"))


def _dev(rr, g, tag, classes):
    dev = rr.pick(["none"] * 5 + list(classes) + ["any"])
    g.features.add(f"{tag}:dev_{dev}")

    def dv(kind, normal, others):
        if (dev == kind and rr.chance(7)) or (dev == "any" and rr.chance(4)):
            return rr.pick(list(others))
        return normal

    return dev, dv


def _hide(g, rr, n0, outs, tag, p=8):
    """The fusion patterns are 7-12 nodes long and must be removable: any extra consumer the harness grows onto one of the
    intermediates (or an intermediate promoted to graph output) blocks the rule.  Extra consumers are enumerated on purpose by the
    planters (dev "extra"), so in p/10 of the hosts the planted intermediates are taken out of the visible environment."""
    if not rr.chance(p):
        g.features.add(f"{tag}:intermediates_visible")
        return outs
    keep = {o.name for o in outs}
    g.env[n0:] = [v for v in g.env[n0:] if v.kind != "node" or v.name in keep]
    return outs


def _lead_dims(rr, shape, keep_last=1):
    mode = rr.pick(["static", "static", "static", "named", "anon"])
    dims = list(shape)
    if mode != "static":
        for i in range(len(shape) - keep_last):
            if rr.chance(6):
                dims[i] = f"n{i}_{shape[i]}" if mode == "named" else None
    return dims


def _eps(g, rr, dt, rank, d, dev, tag):
    val, shp, how = rr.pick([1e-5, 1e-5, 1e-6, 1e-12]), rr.pick([(), (), (1,)]), rr.pick(["node", "init"])
    knobs = {"value": 0, "shape": 0, "how": 0}
    if dev == "eps":
        knobs[rr.pick(["value", "shape", "shape", "how"])] = 1
    elif dev == "any":
        knobs = {k: int(rr.chance(4)) for k in knobs}
    if knobs["value"]:
        val = rr.pick([0.1, 0.0, -1e-3, 1.0])
    if knobs["shape"]:
        shp = rr.pick([(1, 1), (1,) * (rank + 1), (1,) * (rank + 1), (d,)])
    if knobs["how"]:
        how = rr.pick(["ovinit", "input"])
    g.features.add(f"{tag}:eps_shape_{'x'.join(map(str, shp)) or 'scalar'}")
    g.features.add(f"{tag}:eps_{how}")
    g.features.add(f"{tag}:eps_val_{val:g}")
    if how == "input":
        return g.add_input(dt, shp, style="positive")
    return g.const_array(np.full(shp, val, dtype=dt), how=how)


def _scale(g, rr, dt, xshape, dv, tag):
    d = xshape[-1]
    rank = len(xshape)
    opts = {"D": (d,), "scalar": (), "one": (1,), "lead1": (1,) * (rank - 1) + (d,), "SD": tuple(xshape[-2:]), "full": tuple(xshape),
            "rank_ext": (1,) + tuple(xshape[:-1]) + (d,), "rank_ext1": (1,) * rank + (d,), "S1": (xshape[-2] if rank > 1 else 1, 1)}
    kind = dv("scale", "D", ["scalar", "one", "lead1", "SD", "full", "rank_ext", "rank_ext1", "S1"])
    g.features.add(f"{tag}:scale_{kind}")
    shp = opts[kind]
    src = rr.pick(["input", "input", "node", "init"])
    if src == "input":
        return g.add_input(dt, shp, style=rr.pick(["mixed", "smallint", "positive"]))
    return g.const_array(make_array(g.seed(), dt, shp, "mixed"), how=src)


def _reduce_mean(g, v, axes, keepdims, noop=None, rr=None):
    """ReduceMean in the form the host opset allows (axes input from 18, attribute before)."""
    attrs = {}
    if keepdims is not None:
        attrs["keepdims"] = keepdims
    if g.opset >= 18:
        if noop is not None:
            attrs["noop_with_empty_axes"] = noop
        return g.emit("ReduceMean", [v, _i64(g, axes, rr=rr)], **attrs)
    return g.emit("ReduceMean", [v], axes=list(axes), **attrs)


# ----------------------------------------------------------------------------------------------- LayerNormalization from primitives
@register("fusion._layer_norm._layer_norm_rule", "fusion._layer_norm.layer_normalization_ruleset")
def host_layer_norm(g):
    tag = "planted:layer_norm"
    g.features.add(tag)
    rr = _Rng(g)
    n0 = len(g.env)
    g.set_opset(rr.pick([17, 18, 18, 18, 19, 20, 21, 22, 23, 23]))
    g.features.add(f"{tag}:opset_{'17' if g.opset < 18 else '18plus'}")
    dev, dv = _dev(rr, g, tag, ["reduce", "eps", "eps", "scale", "scale", "form", "extra", "order"])
    dt = rr.pick([F32, F32, F32, F32, F64, F64, F16])
    g.features.add(f"{tag}:dtype_{dt.name}")
    rank = rr.pick([2, 3, 3, 4])
    shape = tuple(rr.pick([1, 2, 3, 4]) for _ in range(rank - 1)) + (rr.pick([2, 3, 4, 4]),)
    axes1 = dv("reduce", [-1], [[rank - 1], [-2], [0]])
    keep = dv("reduce", 1, [None, 0])
    if keep == 0:
        shape = shape[:-2] + (shape[-1], shape[-1])  # square trailing dims keep Sub legal
    x = rr.mix(g.add_input(dt, shape, style=rr.pick(["mixed", "edge", "smallint", "unit"]), dims=_lead_dims(rr, shape)))
    axes2 = dv("reduce", axes1, [[-1], [-2]])
    g.features.add(f"{tag}:axes_{axes1[0]}_{axes2[0]}_keep{keep}")
    mean = _reduce_mean(g, x, axes1, keep, rr=rr)
    if not mean:
        return None
    devn = g.emit("Sub", [x, mean[0]])
    if not devn:
        return None
    sq = dv("form", rr.pick(["mul", "pow2f"]), ["pow2i", "pow2eps", "pow3", "mul"])
    g.features.add(f"{tag}:sq_{sq}")
    if sq == "mul":
        d2 = g.emit("Mul", [devn[0], devn[0]])
    else:
        e = {"pow2f": np.asarray(2.0, dtype=dt), "pow2i": np.asarray(2, dtype=np.int64), "pow2eps": np.asarray(2.0000001, dtype=np.float32 if dt == F16 else dt),
             "pow3": np.asarray(3.0, dtype=dt)}[sq]
        d2 = g.emit("Pow", [devn[0], g.const_array(e, how=rr.pick(["node", "init"]))])
    if not d2:
        return None
    var = _reduce_mean(g, d2[0], axes2, keep, rr=rr)
    if not var:
        return None
    eps = _eps(g, rr, dt, rank, shape[-1], dev, tag)
    swap = dv("order", False, [True])
    ve = g.emit("Add", [eps, var[0]] if swap else [var[0], eps])
    if not ve:
        return None
    std = g.emit("Sqrt", [ve[0]])
    if not std:
        return None
    nf = rr.pick(["recip_mul", "recip_mul", "div"])
    g.features.add(f"{tag}:norm_{nf}")
    if nf == "div":
        norm = g.emit("Div", [devn[0], std[0]])
    else:
        inv = g.emit("Reciprocal", [std[0]])
        if not inv:
            return None
        norm = g.emit("Mul", [inv[0], devn[0]] if dv("order", False, [True]) else [devn[0], inv[0]])
    if not norm:
        return None
    scale = _scale(g, rr, dt, shape, dv, tag)
    swap2 = dv("order", False, [True])
    g.features.add(f"{tag}:order_{'swapped' if swap or swap2 else 'pattern'}")
    out = g.emit("Mul", [scale, norm[0]] if swap2 else [norm[0], scale])
    if not out:
        return None
    outs = list(out)
    if rr.chance(3):
        bshape = rr.pick([(shape[-1],), (shape[-1],), (), tuple(shape), tuple(shape[-2:])])
        b = g.add_input(dt, bshape) if rr.chance(5) else g.const_array(make_array(g.seed(), dt, bshape), how=rr.pick(["node", "init"]))
        ob = g.emit("Add", [b, out[0]] if dv("order", False, [True]) else [out[0], b])
        g.features.add(f"{tag}:with_bias_add")
        if ob:
            outs = list(ob)
    extra = dv("extra", None, ["mean", "deviation", "normalized", "std"])
    if extra:
        g.features.add(f"{tag}:extra_{extra}")
        outs.append({"mean": mean[0], "deviation": devn[0], "normalized": norm[0], "std": std[0]}[extra])
    return _hide(g, rr, n0, outs, tag)


# ----------------------------------------------------------------------------------------------- LayerNormalization + Add(bias)
@register("fusion._layer_norm._layer_norm_with_bias_rule", "fusion._layer_norm.layer_normalization_ruleset")
def host_layer_norm_bias(g):
    tag = "planted:ln_bias"
    g.features.add(tag)
    rr = _Rng(g)
    n0 = len(g.env)
    g.set_opset(rr.pick([17, 17, 18, 19, 20, 21, 22, 23]))
    dev, dv = _dev(rr, g, tag, ["axis", "axis", "bias", "bias", "bias", "inputs", "outputs", "order"])
    dt = rr.pick([F32, F32, F32, F64, F16])
    g.features.add(f"{tag}:dtype_{dt.name}")
    rank = rr.pick([2, 3, 3, 4])
    shape = tuple(rr.pick([1, 2, 3, 4]) for _ in range(rank - 1)) + (rr.pick([2, 3, 4]),)
    x = rr.mix(g.add_input(dt, shape, style=rr.pick(["mixed", "edge", "smallint", "unit"]), dims=_lead_dims(rr, shape)))
    axis = dv("axis", rr.pick([-1, -1, None, rank - 1]), [-2, 1, 0, -rank])
    pa = (rank - 1) if axis is None else axis % rank
    g.features.add(f"{tag}:axis_{'absent' if axis is None else ('last' if pa == rank - 1 else 'inner')}")
    nshape = tuple(shape[pa:])
    scale = g.add_input(dt, nshape) if rr.chance(6) else g.const_array(make_array(g.seed(), dt, nshape), how=rr.pick(["node", "init"]))
    attrs = {}
    if axis is not None:
        attrs["axis"] = axis
    e = rr.pick([None, 1e-5, 0.1])
    if e is not None:
        attrs["epsilon"] = e
    if rr.chance(3):
        attrs["stash_type"] = 1
    ins = [x, scale]
    three = dv("inputs", False, [True])
    if three:
        ins.append(g.add_input(dt, nshape))
        g.features.add(f"{tag}:has_B_input")
    nout = dv("outputs", 1, [2, 3])
    if dt != F32:
        nout = 1  # Mean / InvStdDev are float32 (stash type) by schema; onnx.reference returns them in x's dtype -> keep f32 only
    g.features.add(f"{tag}:nout_{nout}")
    ln = g.emit("LayerNormalization", ins, n_out=nout, **attrs)
    if not ln:
        return None
    opts = {"norm": nshape, "D": (shape[-1],), "scalar": (), "one": (1,), "full": tuple(shape), "rank_ext": (1,) + tuple(shape), "lead": (shape[0],) + (1,) * (rank - 1)}
    kind = dv("bias", "norm", ["D", "scalar", "one", "full", "rank_ext", "lead"])
    if kind == "D" and nshape == (shape[-1],):
        kind = "norm"
    g.features.add(f"{tag}:bias_{kind}")
    bshape = opts[kind]
    bsrc = rr.pick(["input", "input", "node", "init"])
    b = g.add_input(dt, bshape) if bsrc == "input" else g.const_array(make_array(g.seed(), dt, bshape), how=bsrc)
    swap = dv("order", False, [True])
    g.features.add(f"{tag}:order_{'swapped' if swap else 'pattern'}")
    out = g.emit("Add", [b, ln[0]] if swap else [ln[0], b])
    if not out:
        return None
    outs = list(out) + list(ln[1:])
    if dv("outputs", False, [True]):
        outs.append(ln[0])
        g.features.add(f"{tag}:ln_out_also_output")
    return _hide(g, rr, n0, outs, tag)


# ----------------------------------------------------------------------------------------------- RMSNormalization
def host_rms_norm(g, prefer=None):
    tag = "planted:rms_norm"
    g.features.add(tag)
    rr = _Rng(g)
    n0 = len(g.env)
    g.set_opset(rr.pick([17, 18, 19, 20, 21, 22, 23, 23, 23, 23, 23]))
    g.features.add(f"{tag}:opset_{g.opset if g.opset in (17, 23) else '18to22'}")
    dev, dv = _dev(rr, g, tag, ["reduce", "eps", "eps", "scale", "scale", "form", "cast", "cast", "extra", "order"])
    xdt = rr.pick([F32, F32, F32, F16, F64])
    rank = rr.pick([1, 2, 3, 3, 4])
    shape = tuple(rr.pick([1, 2, 3, 4]) for _ in range(rank - 1)) + (rr.pick([2, 3, 4, 4]),)
    x = rr.mix(g.add_input(xdt, shape, style=rr.pick(["mixed", "edge", "smallint", "unit"]), dims=_lead_dims(rr, shape)))
    cast_in = dv("cast", None if xdt != F16 or rr.chance(3) else F32, [F32, F64, F16, None])
    g.features.add(f"{tag}:x_{xdt.name}_castin_{cast_in.name if cast_in is not None else 'none'}")
    xc = x
    if cast_in is not None:
        r = g.emit("Cast", [x], to=ONNX_DT[cast_in])
        if not r:
            return None
        xc = r[0]
    cdt = xc.dtype
    ex = dv("form", "2f", ["2i", "3f", "2f"])
    g.features.add(f"{tag}:pow_{ex}")
    e = {"2f": np.asarray(2.0, dtype=cdt), "2i": np.asarray(2, dtype=np.int64), "3f": np.asarray(3.0, dtype=cdt)}[ex]
    sq = g.emit("Pow", [xc, g.const_array(e, how=rr.pick(["node", "init"]))])
    if not sq:
        return None
    axes = dv("reduce", [-1], [[rank - 1], [-2] if rank > 1 else [0]])
    explicit = dv("reduce", True, [False])
    g.features.add(f"{tag}:axes_{axes[0]}_{'explicit' if explicit else 'default'}_attrs")
    ms = _reduce_mean(g, sq[0], axes, 1 if explicit else None, noop=0 if explicit else None, rr=rr)
    if not ms:
        return None
    eps = _eps(g, rr, cdt, rank, shape[-1], dev, tag)
    mse = g.emit("Add", [eps, ms[0]] if dv("order", False, [True]) else [ms[0], eps])
    if not mse:
        return None
    rms = g.emit("Sqrt", [mse[0]])
    if not rms:
        return None
    nf = dv("form", "recip_mul", ["div"])
    g.features.add(f"{tag}:norm_{nf}")
    if nf == "div":
        norm = g.emit("Div", [xc, rms[0]])
    else:
        rec = g.emit("Reciprocal", [rms[0]])
        if not rec:
            return None
        norm = g.emit("Mul", [rec[0], xc] if dv("order", False, [True]) else [xc, rec[0]])
    if not norm:
        return None
    cast_out = dv("cast", xdt if cast_in is not None and cast_in != xdt else None, [F32, F16, F64, None])
    g.features.add(f"{tag}:castout_{cast_out.name if cast_out is not None else 'none'}")
    nv = norm[0]
    if cast_out is not None:
        r = g.emit("Cast", [nv], to=ONNX_DT[cast_out])
        if not r:
            return None
        nv = r[0]
    scale = _scale(g, rr, nv.dtype, shape, dv, tag)
    order = rr.pick(["norm_scale", "scale_norm"] + [prefer] * 4 if prefer else ["norm_scale", "scale_norm"])
    g.features.add(f"{tag}:order_{order}")
    out = g.emit("Mul", [nv, scale] if order == "norm_scale" else [scale, nv])
    if not out:
        return None
    outs = list(out)
    extra = dv("extra", None, ["rms", "normalized"])
    if extra:
        g.features.add(f"{tag}:extra_{extra}")
        outs.append(rms[0] if extra == "rms" else norm[0])
    return _hide(g, rr, n0, outs, tag)


@register("fusion._rms_normalization._rule1", "fusion._rms_normalization.rms_normalization_ruleset")
def host_rms_norm_1(g):
    return host_rms_norm(g, "norm_scale")  # the operand order _rule1 matches, 5:1


@register("fusion._rms_normalization._rule2", "fusion._rms_normalization.rms_normalization_ruleset")
def host_rms_norm_2(g):
    return host_rms_norm(g, "scale_norm")  # the operand order _rule2 matches, 5:1


# ----------------------------------------------------------------------------------------------- RotaryEmbedding from primitives
@register("fusion._rotary_embedding._rule", "fusion._rotary_embedding.rotary_embedding_rules")
def host_rotary(g):
    tag = "planted:rotary"
    g.features.add(tag)
    rr = _Rng(g)
    g.set_opset(rr.pick([13, 14, 17, 18, 19, 20, 21, 22, 23, 23, 23, 23, 23, 23, 23, 23]))
    g.features.add(f"{tag}:opset_{'23' if g.opset == 23 else 'lt23'}")
    dev, dv = _dev(rr, g, tag, ["freqs", "freqs", "slice", "slice", "axes", "sym", "dtype", "halves", "extra", "order"])
    dt = dv("dtype", rr.pick([F32, F32, F32, F16]), [F64])
    g.features.add(f"{tag}:dtype_{dt.name}")
    b, h, s = rr.pick([1, 2, 2]), rr.pick([1, 2, 3]), rr.pick([1, 2, 3])
    d = rr.pick([2, 4, 4, 6])
    half = d // 2
    dims = [b, h, s, d]
    sym = dv("sym", rr.pick(["static", "static", "BS"]), ["H", "D", "all_anon"])
    if sym == "BS":
        dims = ["B", h, "S", d]
    elif sym == "H":
        dims = [b, "H", s, d]
    elif sym == "D":
        dims = [b, h, s, "D"]
    elif sym == "all_anon":
        dims = [None, None, None, None]
    g.features.add(f"{tag}:sym_{sym}")
    x = rr.mix(g.add_input(dt, (b, h, s, d), style=rr.pick(["mixed", "edge", "smallint", "unit"]), dims=dims))
    fk = dv("freqs", "BSh", ["1Sh", "Sh", "B1h", "BSh"])
    if fk == "1Sh" and b == 1:
        fk = "BSh"
    fshape = {"BSh": (b, s, half), "1Sh": (1, s, half), "Sh": (s, half), "B1h": (b, 1, half)}[fk]
    g.features.add(f"{tag}:freqs_{fk}")
    fdims = list(fshape)
    if sym == "BS" and fk == "BSh":
        fdims = ["B", "S", half]
    if rr.chance(8):
        freqs = g.add_input(dt, fshape, style="unit", dims=fdims)
    else:
        freqs = g.const_array(make_array(g.seed(), dt, fshape, "unit"), how=rr.pick(["node", "init"]))
    cax = dv("axes", -1, [len(fshape) - 1])
    emb = g.emit("Concat", [freqs, freqs], axis=cax)
    if not emb:
        return None
    cos = g.emit("Cos", [emb[0]])
    sin = g.emit("Sin", [emb[0]])
    if not cos or not sin:
        return None
    uax = dv("axes", [1], [[-3] if len(fshape) == 3 else [1]])
    cos4 = g.emit("Unsqueeze", [cos[0], _i64(g, uax, rr=rr)])
    sin4 = g.emit("Unsqueeze", [sin[0], _i64(g, uax if rr.chance(8) else [1], rr=rr)])
    if not cos4 or not sin4:
        return None
    split = dv("slice", half, [half - 1 if half > 1 else half, half + 1 if half + 1 < d else half])
    end2 = rr.pick([d, MAX_INT64, d + 3])
    sax = dv("axes", [3], [[-1]])
    g.features.add(f"{tag}:slice_{'even' if split == half else 'uneven'}_axes{sax[0]}_end2_{'D' if end2 == d else 'big'}")
    x1 = g.emit("Slice", [x, _i64(g, [0], rr=rr), _i64(g, [split], rr=rr), _i64(g, sax, rr=rr), _i64(g, [1], rr=rr)])
    x2 = g.emit("Slice", [x, _i64(g, [split], rr=rr), _i64(g, [end2], rr=rr), _i64(g, sax, rr=rr), _i64(g, [1], rr=rr)])
    if not x1 or not x2:
        return None
    halves = dv("halves", "neg_x2_x1", ["x1_neg_x2", "x2_neg_x1"])
    g.features.add(f"{tag}:halves_{halves}")
    rax = dv("axes", -1, [3])
    if halves == "neg_x2_x1":
        n = g.emit("Neg", [x2[0]])
        rot = n and g.emit("Concat", [n[0], x1[0]], axis=rax)
    elif halves == "x1_neg_x2":
        n = g.emit("Neg", [x2[0]])
        rot = n and g.emit("Concat", [x1[0], n[0]], axis=rax)
    else:
        n = g.emit("Neg", [x1[0]])
        rot = n and g.emit("Concat", [x2[0], n[0]], axis=rax)
    if not rot:
        return None
    sw = [dv("order", False, [True]) for _ in range(3)]
    g.features.add(f"{tag}:order_{'swapped' if any(sw) else 'pattern'}")
    a = g.emit("Mul", [cos4[0], x] if sw[0] else [x, cos4[0]])
    bb = g.emit("Mul", [sin4[0], rot[0]] if sw[1] else [rot[0], sin4[0]])
    if not a or not bb:
        return None
    out = g.emit("Add", [bb[0], a[0]] if sw[2] else [a[0], bb[0]])
    if not out:
        return None
    outs = list(out)
    if dv("extra", False, [True]):
        outs.append(cos4[0])
        g.features.add(f"{tag}:extra_cos4d")
    return outs


# ----------------------------------------------------------------------------------------------- partial RotaryEmbedding
@register("fusion._rotary_embedding._partial_embedding_rule", "fusion._rotary_embedding.partial_embedding_rules")
def host_partial_rotary(g):
    tag = "planted:partial_rotary"
    g.features.add(tag)
    rr = _Rng(g)
    n0 = len(g.env)
    if not g.set_opset(23):
        return None
    dev, dv = _dev(rr, g, tag, ["bounds", "bounds", "bounds", "attrs", "attrs", "axes", "extra", "posids"])
    dt = rr.pick([F32, F32, F16])
    g.features.add(f"{tag}:dtype_{dt.name}")
    b, h, s = rr.pick([1, 2]), rr.pick([1, 2, 3]), rr.pick([1, 2, 3])
    r = rr.pick([2, 4])
    d = r + rr.pick([1, 2, 3, 4])
    g.features.add(f"{tag}:D_{'odd' if d % 2 else 'even'}")
    dims = rr.pick([[b, h, s, d], [b, h, s, d], ["B", h, "S", d], [None, h, None, d]])
    x = rr.mix(g.add_input(dt, (b, h, s, d), style=rr.pick(["mixed", "edge", "smallint", "unit"]), dims=dims))
    bknob = rr.pick(["bounds", "bounds", "bounds", "end2"])
    bounds = dv("bounds", "pos_pos", ["neg_neg", "neg_neg", "pos_neg", "gap"]) if bknob == "bounds" or dev == "any" else "pos_pos"
    end1, start2 = {"pos_pos": (r, r), "neg_neg": (r - d, r - d), "pos_neg": (r, r - d), "gap": (r, r + 1 if r + 1 < d else r)}[bounds]
    g.features.add(f"{tag}:bounds_{bounds}")
    end2 = dv("bounds", MAX_INT64, [d]) if bknob == "end2" or dev == "any" else MAX_INT64
    sax = dv("axes", [3], [[-1]])
    p1 = g.emit("Slice", [x, _i64(g, [0], rr=rr), _i64(g, [end1], rr=rr), _i64(g, sax, rr=rr), _i64(g, [1], rr=rr)])
    p2 = g.emit("Slice", [x, _i64(g, [start2], rr=rr), _i64(g, [end2], rr=rr), _i64(g, sax, rr=rr), _i64(g, [1], rr=rr)])
    if not p1 or not p2:
        return None
    attrs = {}
    nh = rr.pick([None, h])
    if nh is not None:
        attrs["num_heads"] = nh
    knob = rr.pick(["interleaved", "redim"])  # one attribute leaves the textbook at a time
    il = dv("attrs", rr.pick([None, 0]), [1]) if knob == "interleaved" or dev == "any" else rr.pick([None, 0])
    if il is not None:
        attrs["interleaved"] = il
    red = dv("attrs", None, [r, r - 2 if r > 2 else r]) if knob == "redim" or dev == "any" else None
    if red is not None:
        attrs["rotary_embedding_dim"] = red
    g.features.add(f"{tag}:interleaved_{il}_redim_{'absent' if red is None else 'present'}")
    rot = (red or r) // 2
    pos = dv("posids", False, [True])
    if pos:
        maxpos = s + 2
        cs = (maxpos, rot)
        pid = g.const_array(np.asarray([[(i + j) % maxpos for i in range(s)] for j in range(b)], dtype=np.int64), how=rr.pick(["node", "init"]))
        g.features.add(f"{tag}:position_ids")
    else:
        cs = (b, s, rot)
        pid = None
    ang = make_array(g.seed(), np.float64, cs, "unit") * 3
    mk = lambda a: (g.add_input(dt, cs, style="unit") if rr.chance(4) else g.const_array(a.astype(dt), how=rr.pick(["node", "init"])))  # noqa: E731
    cosv, sinv = mk(np.cos(ang)), mk(np.sin(ang))
    ins = [p1[0], cosv, sinv] + ([pid] if pid is not None else [])
    rope = g.emit("RotaryEmbedding", ins, **attrs)
    if not rope:
        return None
    cax = dv("axes", -1, [3])
    out = g.emit("Concat", [rope[0], p2[0]], axis=cax)
    if not out:
        return None
    outs = list(out)
    if dv("extra", False, [True]):
        outs.append(rope[0])
        g.features.add(f"{tag}:extra_rope")
    return _hide(g, rr, n0, outs, tag)


# ----------------------------------------------------------------------------------------------- GQA
def _dyn_shape(g, rr, parts):
    """parts: list of int | (Val, axis) -> Concat of constants and Shape slices."""
    pieces = []
    for p in parts:
        if isinstance(p, tuple):
            v, ax = p
            sh = g.emit("Shape", [v], start=ax, end=ax + 1)
            if not sh:
                return None
            pieces.append(sh[0])
        else:
            pieces.append(_i64(g, [p], rr=rr))
    r = g.emit("Concat", pieces, axis=0)
    return r[0] if r else None


@register("fusion._gqa._basic_gqa_rule", "fusion._gqa.gqa_rules")
def host_gqa(g):
    tag = "planted:gqa"
    g.features.add(tag)
    rr = _Rng(g)
    if not g.set_opset(23):
        return None
    dev, dv = _dev(rr, g, tag, ["shapes", "shapes", "attrs", "attrs", "attrs", "mask", "mask", "axes", "fold", "outputs"])
    dt = rr.pick([F32, F32, F32, F16, F64])
    g.features.add(f"{tag}:dtype_{dt.name}")
    b, hkv, grp = rr.pick([1, 2]), rr.pick([1, 2]), rr.pick([1, 2, 2, 3])
    s, p, d = rr.pick([1, 2, 3]), rr.pick([1, 2, 3]), rr.pick([2, 4])
    fold = dv("fold", False, [True])
    if fold:
        grp = 2
        if (s + p) % 2:
            p += 1
    h = hkv * grp
    t = s + p
    dvv = dv("shapes", d, [d + 1])
    skv = dv("shapes", s, [s + 1]) if not fold else s
    if skv != s:
        t = skv + p
        if fold and t % 2:
            return None
    g.features.add(f"{tag}:G_{grp}")
    g.features.add(f"{tag}:Dv_{'same' if dvv == d else 'other'}_Skv_{'same' if skv == s else 'other'}")
    sym = rr.pick(["static", "static", "static", "sym"])
    g.features.add(f"{tag}:dims_{sym}")
    B, S, P = ("B", "S", "P") if sym == "sym" else (b, s, p)
    SK = S if skv == s else ("Sk" if sym == "sym" else skv)
    style = rr.pick(["mixed", "unit", "smallint"])
    q = rr.mix(g.add_input(dt, (b, h, s, d), style=style, dims=[B, h, S, d]))
    k = g.add_input(dt, (b, hkv, skv, d), style=style, dims=[B, hkv, SK, d])
    v = g.add_input(dt, (b, hkv, skv, dvv), style=style, dims=[B, hkv, SK, dvv])
    pk = g.add_input(dt, (b, hkv, p, d), style=style, dims=[B, hkv, P, d])
    pv = g.add_input(dt, (b, hkv, p, dvv), style=style, dims=[B, hkv, P, dvv])
    cax = dv("axes", -2, [2])
    # the pattern literal `2` only matches a 0-d axes constant (what onnxscript/torch emit; runtimes and the checker accept it);
    # the spec-conformant 1-D [2] is drawn as a variant
    uax = dv("axes", 2, [[2], [2], -3])
    g.features.add(f"{tag}:concat_axis_{cax}_unsq_{'scalar' if isinstance(uax, int) else 'vector'}{uax}")
    shape_kind = rr.pick(["const", "const", "dynamic"]) if sym == "static" else "dynamic"
    ekind = rr.pick(["full", "full", "ones"])
    rkind = rr.pick(["full", "full", "zero_minus1"])
    g.features.add(f"{tag}:shapes_{shape_kind}_expand_{ekind}_reshape_{rkind}{'_fold' if fold else ''}")

    def branch(past, cur, dlast):
        pres = g.emit("Concat", [past, cur], axis=cax)
        if not pres:
            return None
        un = g.emit("Unsqueeze", [pres[0], _i64(g, uax, rr=rr)])
        if not un:
            return None
        g_eff = 1 if fold else grp
        if shape_kind == "const":
            es = [b, hkv, g_eff, t, dlast] if ekind == "full" else [1, 1, g_eff, 1, 1]
            esv = _i64(g, es, rr=rr)
        else:
            esv = _dyn_shape(g, rr, [(q, 0), hkv, g_eff, (pres[0], 2), dlast]) if ekind == "full" else _i64(g, [1, 1, g_eff, 1, 1], rr=rr)
        if esv is None:
            return None
        ex = g.emit("Expand", [un[0], esv])
        if not ex:
            return None
        if fold:
            rs = [b, h, t // 2, dlast]
            rsv = _i64(g, rs, rr=rr)
        elif rkind == "zero_minus1":
            rsv = _i64(g, [0, h, -1, dlast], rr=rr)
        elif shape_kind == "const":
            rsv = _i64(g, [b, h, t, dlast], rr=rr)
        else:
            rsv = _dyn_shape(g, rr, [(q, 0), h, (pres[0], 2), dlast])
        if rsv is None:
            return None
        rs_ = g.emit("Reshape", [ex[0], rsv])
        if not rs_:
            return None
        return pres[0], rs_[0]

    kb = branch(pk, k, d)
    vb = branch(pv, v, dvv)
    if kb is None or vb is None:
        return None
    tk = kb[1].shape[2]
    mk = dv("mask", None, ["bool", "float", "float4d", "bool"])
    g.features.add(f"{tag}:mask_{mk}")
    mask = None
    if mk == "bool":
        m = np.tril(np.ones((s, tk), dtype=bool), k=tk - s)
        mask = g.const_array(m, how=rr.pick(["node", "init"])) if rr.chance(5) else g.add_input(BOOL, (s, tk))
        if mask.kind == "input":
            mask.arr[...] = m
    elif mk in ("float", "float4d"):
        ms = (s, tk) if mk == "float" else (1, 1, s, tk)
        mask = g.add_input(dt, ms, style="unit") if rr.chance(5) else g.const_array(make_array(g.seed(), dt, ms, "unit"), how=rr.pick(["node", "init"]))
    attrs = {}
    causal = dv("attrs", rr.pick([None, 0]), [1, 1, None])
    if causal is not None:
        attrs["is_causal"] = causal
    if dv("attrs", False, [True, False]):
        attrs["scale"] = rr.pick([0.5, 1.0, 0.25])
    if dv("attrs", False, [True, False]):
        attrs["softcap"] = rr.pick([0.0, 2.0])
    g.features.add(f"{tag}:is_causal_{causal}")
    g.features.add(f"{tag}:attrs_{'+'.join(sorted(a for a in attrs if a != 'is_causal')) or 'none'}")
    att = g.emit("Attention", [q, kb[1], vb[1]] + ([mask] if mask is not None else []), **attrs)
    if not att:
        return None
    outs = list(att)
    ok = dv("outputs", rr.pick(["none", "both"]), ["key_only", "reshaped", "total_len", "total_len"])
    g.features.add(f"{tag}:extra_outputs_{ok}")
    if ok == "both":
        outs += [kb[0], vb[0]]
    elif ok == "key_only":
        outs += [kb[0]]
    elif ok == "reshaped":
        outs += [kb[1]]
    elif ok == "total_len":
        # the total sequence length read off the concatenated key stays live (models use it to build masks / position ids)
        tl = g.emit("Shape", [kb[0]], start=2, end=3)
        if tl:
            outs += [tl[0]]
    return outs
