"""Hosts for rules/common/_basic_rules.py.

cast_cast_rule / no_op_cast_rule  (host_cast_cast, host_no_op_cast)
  drawn: source dtype over float32/float64/float16/int8/int16/int32/int64/uint8/uint16/uint32/uint64/bool (graph input,
  static or symbolic dims, rank 0-3) and bfloat16 (only as an inner value: produced by a Cast, never a graph input/output,
  because onnxruntime's python binding cannot feed/fetch bfloat16); chain length 1-3 with every target over the same 13 types
  (biased to contain (FLOAT,FLOAT16|BFLOAT16) resp. a Cast to the incoming dtype); sample values rounding-sensitive
  (f16/bf16 ties, double-rounding triples, f16 overflow boundary 65504/65519/65520, subnormals, 2^24+1, 2^53+1) in four
  magnitude classes (unit/mid/tiny/huge, one per case); `saturate`=1 (explicit default; onnxruntime rejects 0 for
  non-float8 targets) at opset>=19; extra consumer / graph-output use of the inner Cast; chain source as graph input or
  as node output (dtype unknown unless value_info).  Any float->int step is made well defined by a Clip in
  front of the chain ([-100,100] or [0,100]).
  not enumerated: string, float8/int4 types, complex, CastLike, `round_mode` (opset 24), Cast inside functions/subgraphs.
no_op_expand_rule  (host_expand)
  drawn: x rank 0-4 (input static / symbolic / unknown dims, Constant/initializer, node output), x dtype over 7 types, zero-size
  dims; shape operand equal / ones-where-x-has-d (broadcast-equal) / leading-1 extension / larger leading dims / shorter /
  growing a 1-dim / all ones / empty; shape as Constant, initializer, overridable initializer, Identity(const) or Shape(y).
  not enumerated: shape as int32 (invalid), 2-D shape operand (invalid).
flatten_to_reshape_rule  (host_flatten)
  drawn: x rank 0-5, dims 1-4 and 0 (zero-size), static / first-dim symbolic / all symbolic / some symbolic / unknown dims,
  x as graph input or node output; axis absent and every value in [-r, r]; dtype over 7 types; twin Flatten nodes on the
  same x with different axes; Flatten output consumed by another node.
  not enumerated: a zero-size dim inside the flattened head (axis > position of the 0 dim; onnx.reference Flatten cannot
  evaluate reshape(0,-1) so g.emit refuses it), Flatten of opset < 13 hosts, Flatten inside subgraphs.
reshape_reshape_rule  (host_reshape_reshape)
  drawn: x rank 0-4 (static/symbolic/zero-size), chains of 2-3 Reshape; each target: plain factorisation sharing a prefix with
  the operand, one -1, one 0 (copy), 0 together with -1, two 0s, all 0s, explicit 0 with allowzero=1 (zero-size), allowzero
  absent/0/1 independently on every node; first/second shape as Constant / initializer / overridable initializer /
  Shape(other input) (non-constant); extra consumer of the inner Reshape.
  not enumerated: allowzero=1 with both 0 and -1 (invalid ONNX), Reshape-5 hosts (opset < 13).
slice_split_rule  (host_slice_split)
  drawn: host opset pinned over {13,15,17,18,19,21,23}; x rank 1-4, last dim 0-8 (even/odd), leading dims static or symbolic,
  last dim symbolic; axes -1 / r-1 / another axis / differing / absent (3-input form) / 2-element; begin0 0 / 1 / -d;
  split point floor / ceil half / gap / overlap; end1 = d / INT64_MAX / INT32_MAX / d+1; steps input [1] on both / one,
  [2]; node order [0:h] first or [h:d] first (2/3: the rule was observed to fire only in that order); a third Slice on
  the same x; index tensors int64 or int32, Constant / initializer / overridable / computed from Shape(x).
  not enumerated: Slice-1 attribute form (opset < 10), negative steps.
no_op_transpose_rule / transpose_transpose_rule  (host_transpose, host_transpose_transpose)
  drawn: rank 0-5, every permutation (hypothesis permutations; identity, inverse pair and equal pair boosted), perm absent on
  either node, symbolic dims, zero-size dims, dtype over 7 types, extra consumer of the inner Transpose, chains of 3.
  not enumerated: perm=[] (helper.make_node cannot build an empty INTS attribute), perm as reference attribute in a function.
unsqueeze_unsqueeze_rule  (host_unsqueeze_unsqueeze)
  drawn: x rank 0-3; axes1/axes2 with 1-2 elements each over the full valid range, equal values, negative spellings, unsorted
  order; axes as Constant / initializer / overridable / Identity(const); opset 11/12 attribute form; extra consumer.
  not enumerated: rank-0 axes tensors (invalid), duplicate axes (invalid).
squeeze_reshape_1d_rule  (host_squeeze_reshape)
  drawn: x shape [1] / [n] / [0] / symbolic [N] (sample 1 or n) / rank 2 ([1,n], [n,1], [1,1]) / rank 0; Squeeze without
  axes, with axes input [0] / [-1], opset 11 attribute form; Reshape target [-1] / [n] / [1,-1] / [-1,1] / [0]; allowzero
  absent/0/1; target as Constant / initializer / overridable; extra consumer of the Squeeze output.
  not enumerated: Squeeze axes non-constant.
"""
from __future__ import annotations

import ml_dtypes
import numpy as np
from onnx import TensorProto as T

from vf.hyp import st
from vf.modelgen import BOOL, F16, F32, F64, I32, I64, U8
from vf.rulehosts.plant import register

BF16 = np.dtype(ml_dtypes.bfloat16)
I8, I16, U16, U32, U64 = (np.dtype(x) for x in ("int8", "int16", "uint16", "uint32", "uint64"))
ONNX_T = {F32: T.FLOAT, F64: T.DOUBLE, F16: T.FLOAT16, BF16: T.BFLOAT16, I8: T.INT8, I16: T.INT16, I32: T.INT32, I64: T.INT64,
          U8: T.UINT8, U16: T.UINT16, U32: T.UINT32, U64: T.UINT64, BOOL: T.BOOL}
CAST_TYPES = list(ONNX_T)
SHAPE_DTYPES = (F32, F32, F64, F16, I64, I32, BOOL, U8)
I64MAX = 2**63 - 1
I32MAX = 2**31 - 1


# ------------------------------------------------------------------------------------------------ helpers
def _isfloat(dt):
    return dt.kind == "f" or dt == BF16


def _isint(dt):
    return dt.kind in "iu"


def _inp(g, dtype, shape, sym=None, style=None):
    """Graph input with static / symbolic / unknown declared dims."""
    shape = tuple(shape)
    mode = sym or g.pick(["static", "static", "static", "sym_first", "sym_all", "sym_some", "none_some", "sym_last"])
    dims = list(shape)
    if shape and mode != "static":
        for i in range(len(shape)):
            hit = {"sym_first": i == 0, "sym_all": True, "none_all": True, "sym_last": i == len(shape) - 1}.get(mode)
            if hit is None:
                hit = g.chance(5)
            if hit:
                dims[i] = None if mode.startswith("none") else g.fresh("N")
    return g.add_input(dtype, shape, style=style or g.pick(["mixed", "edge", "smallint"]), dims=dims), mode if dims != list(shape) else "static"


def _shape(g, ranks, dims=(1, 2, 3, 4, 2, 3, 5), zero=1):
    """zero: chance (in tenths) that one dim (rarely two) of the shape is 0."""
    rank = g.pick(ranks)
    shape = [g.pick(dims) for _ in range(rank)]
    if rank and zero and g.chance(zero):
        shape[g.draw(st.integers(0, rank - 1))] = 0
        if g.chance(2):
            shape[g.draw(st.integers(0, rank - 1))] = 0
    return tuple(shape)


def _how(g, how):
    """Constant-11 has no value_ints/value_floats form (modelgen may pick it): use an initializer there."""
    if g.opset < 12 and how in (None, "node"):
        return "init"
    return how


def _ints(g, xs, dtype=np.int64, how=None):
    return g.const_array(np.asarray(xs, dtype=dtype).reshape(-1), how=_how(g, how))


def _const_or_not(g, arr, tagset):
    """Constant in one of the forms the rules may or may not look through."""
    how = g.pick(["node", "node", "node", "init", "init", "init", "ovinit", "identity"])
    tagset.add(how)
    if how == "identity":
        c = g.const_array(arr, how="init")
        r = g.emit("Identity", [c])
        return r[0] if r else c
    return g.const_array(arr, how=_how(g, how))


def _via_node(g, x):
    """Make x a node output (shape/dtype known to the rule only through value_info)."""
    if x.dtype == BOOL:
        r = g.emit(g.pick(["Identity", "Not"]), [x])
    elif x.dtype == U8:
        r = g.emit("Identity", [x])
    else:
        r = g.emit(g.pick(["Identity", "Neg", "Abs"]), [x])
    return r[0] if r else x


def _extra_consumer(g, v, outs, none_weight=9):
    """Another use of an inner value: graph output and/or another node."""
    k = g.pick(["none"] * none_weight + ["output", "node", "both"])
    if v.dtype == BF16:
        k = "none" if k == "output" else ("node" if k == "both" else k)
    if k in ("output", "both"):
        outs.append(v)
    if k in ("node", "both"):
        r = g.emit("Identity", [v]) if v.dtype != BF16 else g.emit("Cast", [v], to=T.FLOAT)
        if r:
            outs.append(r[0])
    return k


# ------------------------------------------------------------------------------------------------ Cast
_SPECIALS = {
    # class -> dtype kind -> values.  One class per case so the magnitude scale of the comparison matches the data.
    "unit": {
        "f": [1 + 2**-11, 1 + 2**-11 + 2**-30, 1 + 2**-8, 1 + 2**-8 + 2**-40, 1 + 3 * 2**-11, 1 - 2**-12, 0.1, 1 / 3, -0.0, 0.5 + 2**-12,
              -(1 + 2**-11), -(1 + 2**-8 + 2**-40), 1 + 2**-10 + 2**-11, 1 + 2**-7 + 2**-8],
        "i": [0, 1, -1, 2, 3, -3],
    },
    "mid": {
        "f": [2049.0, 2049.0000001, 2051.0, 4097.0, 65504.0, 65519.0, 65519.999, 65520.0, 257.0, 257.0000001, 259.0, -2049.0, 1025.5, 0.0],
        "i": [2049, 2051, 4097, 65519, 65520, 257, 259, 513, -2049, 1023, 1025, 32767],
    },
    "tiny": {
        "f": [1e-8, 2.9802322387695312e-08, 2.98023224e-08 * 1.0000002, 6e-8, 8.9e-8, 6.1e-5, 6.097555e-05, 1e-40, 1e-45, -2.9802322387695312e-08, 0.0],
        "i": [0, 1],
    },
    "huge": {
        "f": [3.38953139e38, 3.4e38, 1e39, 1e5, 65536.0, 16777217.0, 2.0**53 + 2, -1e39, 1e300],
        "i": [16777217, 2**31 - 1, 2**53 + 1, 2**62, -(2**31), 2**40 + 1, 2**63 - 1],
    },
}


def _special_fill(g, v):
    """Overwrite the sample tensor (first feed) with rounding-sensitive values of one magnitude class."""
    if v.dtype == BOOL or v.arr.size == 0:
        return "plain"
    cls = g.pick(["plain", "unit", "unit", "mid", "mid", "tiny", "huge"])
    if cls == "plain":
        return cls
    vals = _SPECIALS[cls]["f" if v.dtype.kind == "f" else "i"]
    rng = np.random.default_rng(g.seed())
    pickd = rng.choice(np.asarray(vals, dtype=np.float64 if v.dtype.kind == "f" else object), size=v.arr.size)
    info = np.finfo(v.dtype) if v.dtype.kind == "f" else np.iinfo(v.dtype)
    out = []
    for p in pickd:
        p = float(p) if v.dtype.kind == "f" else int(p)
        if v.dtype.kind == "f":
            p = min(max(p, float(info.min)), float(info.max))  # stay finite in the source type
        else:
            p = min(max(p, int(info.min)), int(info.max))
        out.append(p)
    v.arr[...] = np.asarray(out, dtype=v.dtype).reshape(v.arr.shape)
    return cls


def _cast_source(g, dtypes):
    dt = g.pick(dtypes)
    shape = _shape(g, [0, 1, 1, 2, 2, 3], zero=0)
    x, mode = _inp(g, dt, shape)
    return x


def _cast_chain(g, tag, targets, src):
    """src --Cast(t0)--> --Cast(t1)--> ... ; returns outputs (never bfloat16)."""
    seq = [src.dtype] + list(targets)
    needs_tame = any(_isfloat(a) and _isint(b) for a, b in zip(seq, seq[1:]))
    cls = _special_fill(g, src)
    g.features.add(f"planted:{tag}:values_{cls}")
    cur = src
    if needs_tame and src.dtype != BOOL:
        unsigned = any(t.kind == "u" for t in seq)
        lo = np.asarray(0 if unsigned else -100).astype(src.dtype)
        hi = np.asarray(100).astype(src.dtype)
        r = g.emit("Clip", [cur, g.const_array(lo, how="node"), g.const_array(hi, how="node")])
        if not r:
            return None
        cur = r[0]
        g.features.add(f"planted:{tag}:tamed")
    elif g.chance(2):
        cur = _via_node(g, cur) if cur.dtype in (F32, F64, F16, I64, I32, BOOL, U8) else cur
    outs = []
    for i, t in enumerate(targets):
        attrs = {"to": ONNX_T[t]}
        if g.opset >= 19 and g.chance(2):
            attrs["saturate"] = 1  # explicit default; onnxruntime refuses saturate=0 unless the target is a float8 type
            g.features.add(f"planted:{tag}:saturate_attr")
        r = g.emit("Cast", [cur], **attrs)
        if not r:
            return None
        cur = r[0]
        if i < len(targets) - 1:
            k = _extra_consumer(g, cur, outs, none_weight=15)
            if k != "none":
                g.features.add(f"planted:{tag}:inner_extra_{k}")
    if cur.dtype == BF16:
        r = g.emit("Cast", [cur], to=g.pick([T.FLOAT, T.FLOAT, T.DOUBLE]))
        if not r:
            return None
        cur = r[0]
    outs.append(cur)
    return outs


def _tame_source_dtypes():
    return [F32, F32, F64, F16, I64, I32, BOOL, U8, I8, U32, U64, I16, U16]


@register("cast_cast_rule")
def host_cast_cast(g):
    n = g.pick([2, 2, 2, 3])
    targets = [g.pick(CAST_TYPES) for _ in range(n)]
    form = g.pick(["allowed"] * 5 + ["random", "reverse", "f64_mid"])
    pos = g.draw(st.integers(0, n - 2))
    if form == "allowed":
        targets[pos], targets[pos + 1] = F32, g.pick([F16, BF16])
    elif form == "reverse":
        targets[pos], targets[pos + 1] = g.pick([F16, BF16]), F32  # the invalid direction named in the rule's comment
    elif form == "f64_mid":
        targets[pos], targets[pos + 1] = F64, g.pick([F16, BF16, F32])
    seq_has_f2i = any(_isfloat(a) and _isint(b) for a, b in zip(targets, targets[1:]))
    src_types = _tame_source_dtypes()
    src = _cast_source(g, src_types)
    if (seq_has_f2i or (_isfloat(src.dtype) and _isint(targets[0]))) and src.dtype in (I16, U16):
        targets = [t if not _isint(t) else F64 for t in targets]  # Clip has no (u)int16 kernel in onnxruntime
    g.features.add("planted:cast_cast")
    g.features.add(f"planted:cast_cast:{form}")
    g.features.add(f"planted:cast_cast:src_{src.dtype.name}")
    g.features.add(f"planted:cast_cast:pair_{targets[pos].name}_{targets[pos + 1].name}")
    return _cast_chain(g, "cast_cast", targets, src)


@register("no_op_cast_rule")
def host_no_op_cast(g):
    n = g.pick([1, 1, 1, 2, 3])
    src = _cast_source(g, _tame_source_dtypes())
    targets = [g.pick(CAST_TYPES) for _ in range(n)]
    form = g.pick(["same", "same", "same", "random", "same_kind"])
    pos = g.draw(st.integers(0, n - 1))
    prev = src.dtype if pos == 0 else targets[pos - 1]
    if form == "same":
        targets[pos] = prev
    elif form == "same_kind":
        near = {F32: [F64, F16], F64: [F32], F16: [F32, BF16], BF16: [F16, F32], I64: [I32, U64], I32: [I64, U32], I8: [U8], U8: [I8, BOOL],
                I16: [U16], U16: [I16], U32: [I32], U64: [I64], BOOL: [U8]}
        targets[pos] = g.pick(near[prev])
    seq = [src.dtype] + targets
    if any(_isfloat(a) and _isint(b) for a, b in zip(seq, seq[1:])) and src.dtype in (I16, U16):
        targets = [t if not _isint(t) else (F64 if t != prev else t) for t in targets]
        seq = [src.dtype] + targets
        if any(_isfloat(a) and _isint(b) for a, b in zip(seq, seq[1:])):
            return None
    g.features.add("planted:no_op_cast")
    g.features.add(f"planted:no_op_cast:{form}")
    g.features.add(f"planted:no_op_cast:to_{targets[pos].name}")
    g.features.add(f"planted:no_op_cast:pos{pos}of{n}")
    return _cast_chain(g, "no_op_cast", targets, src)


# ------------------------------------------------------------------------------------------------ Expand
@register("no_op_expand_rule")
def host_expand(g):
    dt = g.pick(SHAPE_DTYPES + (I64,))
    variant = g.pick(["equal", "equal", "equal", "equal", "ones_where_d", "lead1", "lead_big", "shorter", "prefix", "prefix", "reversed", "grow", "all_ones", "empty", "dynamic_equal"])
    if variant in ("prefix", "reversed"):
        shape = _shape(g, [2, 2, 3], zero=0)  # (rank >= 2 by construction: left- and right-alignment differ only there)
        if variant == "prefix" and g.chance(6):
            shape = shape[:-1] + (1,)  # (the trailing dim is what the lower-rank target meets first)
    else:
        shape = _shape(g, [0, 1, 1, 2, 2, 3, 4], zero=1)
    src = g.pick(["input", "input", "input", "const", "node"])
    if src == "const":
        from vf.modelgen import make_array

        x = g.const_array(make_array(g.seed(), dt, shape, "smallint"), how=g.pick(["node", "init"]))
        mode = "static"
    else:
        x, mode = _inp(g, dt, shape)
        if src == "node":
            x = _via_node(g, x)
    r = len(shape)
    tgt = list(shape)
    if variant == "ones_where_d":
        tgt = [1 if g.chance(5) else d for d in shape]
    elif variant == "lead1":
        tgt = [1] * g.pick([1, 2]) + list(shape)
    elif variant == "lead_big":
        tgt = [g.pick([2, 3])] + list(shape)
    elif variant == "shorter":
        tgt = list(shape[g.pick([1, 1, 2]):]) if r else []
    elif variant == "prefix":
        # the LEADING dims of the input as a lower-rank target: Expand aligns from the right, so this is not the input's own shape
        # (x[3,1] expanded to [3] is [3,3]); combinations that do not broadcast are dropped by emit()
        tgt = list(shape[:r - g.pick([1, 1, 2])]) if r else []
    elif variant == "reversed":
        tgt = list(shape[::-1])
    elif variant == "grow":
        tgt = [g.pick([2, 3]) if d == 1 else d for d in shape]
    elif variant == "all_ones":
        tgt = [1] * r
    elif variant == "empty":
        tgt = []
    g.features.add("planted:no_op_expand")
    g.features.add(f"planted:no_op_expand:{variant}")
    g.features.add(f"planted:no_op_expand:x_{src}_{mode}")
    g.features.add(f"planted:no_op_expand:rank{r}")
    if 0 in shape:
        g.features.add("planted:no_op_expand:zero_size")
    if variant == "dynamic_equal":
        y, _ = _inp(g, F32, shape, sym="static")
        s = g.emit("Shape", [y])
        if not s:
            return None
        shp = s[0]
    else:
        tags = set()
        shp = _const_or_not(g, np.asarray(tgt, dtype=np.int64).reshape(-1), tags)
        g.features.add(f"planted:no_op_expand:shape_{sorted(tags)[0]}")
    return g.emit("Expand", [x, shp])


# ------------------------------------------------------------------------------------------------ Flatten
@register("flatten_to_reshape_rule")
def host_flatten(g):
    dt = g.pick(SHAPE_DTYPES)
    shape = _shape(g, [0, 1, 2, 2, 3, 3, 4, 5], zero=2)
    x, mode = _inp(g, dt, shape)
    r = len(shape)
    src = "input"
    if g.chance(3):
        x = _via_node(g, x)
        src = "node"
    g.features.add("planted:flatten")
    g.features.add(f"planted:flatten:x_{src}_{mode}")
    g.features.add(f"planted:flatten:rank{r}")
    if 0 in shape:
        g.features.add("planted:flatten:zero_size")

    def one(exclude=None):
        if r >= 1 and shape[0] != 0 and g.chance(2) and exclude != "absent":
            g.features.add("planted:flatten:axis_absent")
            return g.emit("Flatten", [x]), "absent"
        # onnx.reference Flatten cannot evaluate a flattened head of size 0 (reshape(0, -1)): such axes cannot be emitted
        ok_axes = [a for a in range(-r, r + 1) if int(np.prod(shape[: a + r if a < 0 else a])) != 0]
        ok_axes = [a for a in ok_axes if a != exclude] or [0]
        axis = g.pick(ok_axes)
        cls = "0" if axis == 0 else "1" if axis == 1 else "r" if axis == r else "neg" if axis < 0 else "mid"
        g.features.add(f"planted:flatten:axis_{cls}")
        return g.emit("Flatten", [x], axis=axis), axis

    a, ax = one()
    if not a:
        return None
    outs = list(a)
    if g.chance(3, 20) and r >= 1:
        b, _ = one(exclude=ax)
        if b:
            outs += b
            g.features.add("planted:flatten:twin")
    if g.chance(2):
        c = g.emit("Identity", [outs[0]])
        if c:
            outs = c + outs[1:]
            g.features.add("planted:flatten:consumed")
    return outs


# ------------------------------------------------------------------------------------------------ Reshape o Reshape
def _divisors(n):
    return [d for d in range(1, n + 1) if n % d == 0]


def _factor(g, n, kmax=3):
    k = g.pick(list(range(0 if n == 1 else 1, kmax + 1)))
    if k == 0:
        return []
    out = []
    for _ in range(k - 1):
        d = g.pick(_divisors(n))
        out.append(d)
        n //= d
    out.append(n)
    return list(g.draw(st.permutations(out)))


def _reshape_target(g, cur):
    """(target list, allowzero or None, variant) valid for an operand of shape cur."""
    cur = list(cur)
    size = int(np.prod(cur)) if cur else 1
    can_az = g.opset >= 14
    if size == 0:
        k = g.pick([1, 2, 3])
        cands = [[0, k], list(cur), [k, 0], [0], [1, 0, k], list(reversed(cur))]
        base = g.pick(cands)
        copy_ok = all(b != 0 or (i < len(cur) and cur[i] == 0) for i, b in enumerate(base))
        if not copy_ok and not can_az:
            base, copy_ok = list(cur), True
        az = (g.pick([None, 0, 1]) if can_az else None) if copy_ok else 1
        variant = "zsize_copy" if az != 1 else "zsize_explicit"
        if az != 1 and g.chance(3):
            zi = [i for i, b in enumerate(base) if b == 0]
            rest = [b for i, b in enumerate(base) if i != zi[0]]
            if len(zi) == 1 and all(b > 0 for b in rest):
                base[zi[0]] = -1
                variant = "zsize_neg1"
        return base, az, variant
    j = g.draw(st.integers(0, len(cur)))
    base = cur[:j] + _factor(g, int(np.prod(cur[j:])) if cur[j:] else 1)
    variant = g.pick(["plain", "plain", "plain", "neg1", "neg1", "zero", "zero", "zero_neg1", "two_zero", "all_zero"])
    copyable = [i for i in range(min(len(base), len(cur))) if base[i] == cur[i]]
    if not base:
        variant = "plain"
    if variant in ("zero", "zero_neg1", "two_zero", "all_zero") and not copyable:
        variant = "neg1" if base else "plain"
    tgt = list(base)
    if variant == "neg1":
        tgt[g.draw(st.integers(0, len(tgt) - 1))] = -1
    elif variant == "zero":
        tgt[g.pick(copyable)] = 0
    elif variant == "zero_neg1":
        i = g.pick(copyable)
        tgt[i] = 0
        others = [k for k in range(len(tgt)) if k != i]
        if others:
            tgt[g.pick(others)] = -1
        else:
            variant = "zero"
    elif variant == "two_zero":
        if len(copyable) >= 2:
            for i in list(g.draw(st.permutations(copyable)))[:2]:
                tgt[i] = 0
        else:
            tgt[copyable[0]] = 0
            variant = "zero"
    elif variant == "all_zero":
        for i in copyable:
            tgt[i] = 0
    az = None
    if can_az and g.chance(4):
        az = 0 if 0 in tgt else g.pick([0, 1])
    return tgt, az, variant


def _shape_operand(g, tgt, tag, plain):
    how = g.pick(["node", "init", "init", "ovinit", "dynamic"])
    if how == "dynamic" and plain and all(t >= 0 for t in tgt):
        y, _ = _inp(g, F32, tuple(tgt), sym="static")
        s = g.emit("Shape", [y])
        if s:
            g.features.add(f"planted:{tag}_dynamic")
            return s[0]
    how = "init" if how == "dynamic" else how
    g.features.add(f"planted:{tag}_{how}")
    return g.const_array(np.asarray(tgt, dtype=np.int64).reshape(-1), how=how)


@register("reshape_reshape_rule")
def host_reshape_reshape(g):
    dt = g.pick(SHAPE_DTYPES)
    shape = _shape(g, [0, 1, 2, 2, 3, 3, 4], dims=(1, 2, 3, 4, 6, 2), zero=2)
    forced = None
    if g.opset >= 14 and 1 <= g.draw(st.integers(0, 9)) <= 2:
        # zero-size data whose final Reshape names the 0 explicitly at an index where its operand has none: Reshape<allowzero=1>(., [0, k])
        a, k = g.pick([2, 3, 1]), g.pick([1, 2, 3])
        shape = (a, 0)
        forced = [(g.pick([[a, 0], [0, a], [-1, 0]]), g.pick([None, None, 0]) , "zsize_copy"), ([0, k], 1, "zsize_explicit")]
        if forced[0][0] == [0, a]:
            forced[0] = ([0, a], 1, "zsize_explicit")
        g.features.add("planted:reshape_reshape:explicit_zero_last")
    x, mode = _inp(g, dt, shape)
    if g.chance(2):
        x = _via_node(g, x)
    g.features.add("planted:reshape_reshape")
    g.features.add(f"planted:reshape_reshape:x_{mode}")
    if 0 in shape:
        g.features.add("planted:reshape_reshape:zero_size")
    n = g.pick([2, 2, 2, 3]) if forced is None else 2
    cur = x
    outs = []
    for i in range(n):
        tgt, az, variant = _reshape_target(g, cur.shape) if forced is None else forced[i]
        pos = "first" if i == 0 else "second" if i == 1 else "third"
        g.features.add(f"planted:reshape_reshape:{pos}_{variant}")
        g.features.add(f"planted:reshape_reshape:{pos}_allowzero_{az}")
        shp = _shape_operand(g, tgt, f"reshape_reshape:{pos}_shape", variant == "plain")
        attrs = {} if az is None else {"allowzero": az}
        r = g.emit("Reshape", [cur, shp], **attrs)
        if not r:
            if i >= 2:
                break
            return None
        cur = r[0]
        if i < n - 1:
            k = _extra_consumer(g, cur, outs)
            if k != "none":
                g.features.add(f"planted:reshape_reshape:inner_extra_{k}")
    outs.append(cur)
    return outs


# ------------------------------------------------------------------------------------------------ Slice, Slice -> Split
@register("slice_split_rule")
def host_slice_split(g):
    if g.chance(8):
        g.set_opset(g.pick([13, 13, 15, 17, 18, 18, 19, 21, 23]))
    g.features.add("planted:slice_split")
    g.features.add("planted:slice_split:opset_" + ("lt18" if g.opset < 18 else "ge18"))
    dt = g.pick([F32, F32, F64, I64, I32, F16, BOOL, U8])
    variant = g.pick(["exact"] * 14 + ["ceil_half", "e1_i64max", "e1_i32max", "e1_over", "begin1", "begin_neg", "gap", "overlap", "diff_axes", "other_axis",
                                      "steps1", "steps1_one", "steps2", "no_axes", "multi_axes", "nonconst", "quarter"])
    r = 1 if variant == "no_axes" else g.pick([1, 2, 2, 3, 4])
    if variant in ("other_axis", "diff_axes", "multi_axes") and r == 1:
        r = 2
    d = g.pick([0, 1, 2, 2, 3, 4, 4, 5, 6, 7, 8])
    shape = tuple(g.pick([1, 2, 3]) for _ in range(r - 1)) + (d,)
    if variant in ("other_axis", "diff_axes"):
        shape = (d,) + shape[1:]  # so that slicing axis 0 with the same numbers is valid and non-trivial
    x, mode = _inp(g, dt, shape, sym=g.pick(["static"] * 7 + ["sym_first", "sym_first", "sym_last", "sym_all", "none_some"]))
    if g.chance(3, 20):
        x = _via_node(g, x)
        mode += "_node"
    g.features.add(f"planted:slice_split:{variant}")
    g.features.add(f"planted:slice_split:x_{mode}")
    g.features.add(f"planted:slice_split:lastdim_{'odd' if d % 2 else 'even'}{'_le1' if d <= 1 else ''}")
    h = d // 2
    b0, e0, b1, e1 = 0, h, h, d
    ax0 = ax1 = g.pick([-1, r - 1])
    g.features.add(f"planted:slice_split:axes_{'neg' if ax0 < 0 else 'pos'}")
    st0 = st1 = None
    if variant == "ceil_half":
        e0 = b1 = (d + 1) // 2
    elif variant == "quarter":
        e0 = b1 = max(h - 1, 0)
    elif variant == "e1_i64max":
        e1 = I64MAX
    elif variant == "e1_i32max":
        e1 = I32MAX
    elif variant == "e1_over":
        e1 = d + g.pick([1, 5])
    elif variant == "begin1":
        b0 = 1
    elif variant == "begin_neg":
        b0 = -d if d else 0
    elif variant == "gap":
        b1 = h + 1
    elif variant == "overlap":
        b1 = max(h - 1, 0)
    elif variant == "diff_axes":
        ax0, ax1 = (0, ax1) if g.chance(5) else (ax0, 0)
    elif variant == "other_axis":
        ax0 = ax1 = g.pick([0, -r])
    elif variant == "steps1":
        st0 = st1 = 1
    elif variant == "steps1_one":
        st0, st1 = (1, None) if g.chance(5) else (None, 1)
    elif variant == "steps2":
        st0 = st1 = 2
    idt = np.int64
    if g.chance(2):
        idt = np.int32
        g.features.add("planted:slice_split:int32_indices")
        e1 = min(e1, I32MAX)
    how = g.pick(["node", "init", "mixed", "mixed", "ovinit"])
    g.features.add(f"planted:slice_split:const_{how}")

    def c(vals):
        return _ints(g, vals, dtype=idt, how=None if how == "mixed" else how)

    def slice_(b, e, ax, step, dyn_end=False):
        if variant == "multi_axes":
            ins = [x, c([0, b]), c([shape[0], e]), c([0, ax])]
        else:
            end = c([e])
            if dyn_end:
                s = g.emit("Shape", [x])
                gth = g.emit("Gather", [s[0], _ints(g, [r - 1])], axis=0) if s else None
                if gth and idt == np.int32:
                    gth = g.emit("Cast", [gth[0]], to=T.INT32)
                if not gth:
                    return None
                end = gth[0]
            ins = [x, c([b]), end]
            if variant != "no_axes":
                ins.append(c([ax]))
        if step is not None:
            if len(ins) == 3:
                ins.append(None)
            ins.append(c([step] * (2 if variant == "multi_axes" else 1)))
        return g.emit("Slice", ins)

    order = g.pick(["fwd", "swapped", "swapped"])  # observed: the rule only fires when the [h:d] Slice precedes the [0:h] Slice
    g.features.add(f"planted:slice_split:order_{order}")
    specs = [(b0, e0, ax0, st0, False), (b1, e1, ax1, st1, variant == "nonconst")]
    if order == "swapped":
        specs.reverse()
    outs = []
    for sp in specs:
        o = slice_(*sp)
        if not o:
            return None
        outs += o
    if g.chance(3, 20):
        o = slice_(*specs[g.pick([0, 1])][:4])
        if o:
            outs += o
            g.features.add("planted:slice_split:third_slice")
    return outs


# ------------------------------------------------------------------------------------------------ Transpose
def _perm(g, r, kind=None):
    kind = kind or g.pick(["identity", "random", "random", "random", "absent"])
    if kind == "absent" or r == 0:
        return None
    if kind == "identity":
        return list(range(r))
    return list(g.draw(st.permutations(list(range(r)))))


def _transpose(g, x, perm):
    if perm is None:
        return g.emit("Transpose", [x])
    return g.emit("Transpose", [x], perm=perm)


def _tr_input(g, tag, ranks):
    dt = g.pick(SHAPE_DTYPES)
    shape = _shape(g, ranks, zero=1)
    x, mode = _inp(g, dt, shape)
    if g.chance(2):
        x = _via_node(g, x)
    g.features.add(f"planted:{tag}:rank{len(shape)}")
    g.features.add(f"planted:{tag}:x_{mode}")
    return x


@register("no_op_transpose_rule")
def host_transpose(g):
    g.features.add("planted:no_op_transpose")
    x = _tr_input(g, "no_op_transpose", [0, 1, 1, 2, 2, 3, 3, 4, 5])
    kind = g.pick(["identity", "identity", "identity", "random", "random", "absent", "swap_last"])
    r = x.rank
    if kind == "swap_last" and r >= 2:
        perm = list(range(r))
        perm[-1], perm[-2] = perm[-2], perm[-1]
    else:
        perm = _perm(g, r, "random" if kind == "swap_last" else kind)
    cls = "absent" if perm is None else "identity" if perm == list(range(r)) else "nonidentity"
    g.features.add(f"planted:no_op_transpose:perm_{cls}")
    return _transpose(g, x, perm)


@register("transpose_transpose_rule")
def host_transpose_transpose(g):
    g.features.add("planted:transpose_transpose")
    x = _tr_input(g, "transpose_transpose", [0, 1, 2, 2, 2, 3, 3, 3, 3, 4, 4, 4, 5])
    r = x.rank
    p1 = _perm(g, r, g.pick(["random"] * 6 + ["identity", "absent"]))
    form = g.pick(["random", "random", "random", "inverse", "inverse", "same", "identity", "absent"])
    if form == "inverse" and p1 is not None:
        p2 = [p1.index(i) for i in range(r)]
    elif form == "same" and p1 is not None:
        p2 = list(p1)
    else:
        p2 = _perm(g, r, form if form in ("random", "identity", "absent") else "random")
    ident = list(range(r))
    g.features.add(f"planted:transpose_transpose:p1_{'absent' if p1 is None else 'identity' if p1 == ident else 'given'}")
    if p2 is None:
        cls = "absent"
    elif p1 is not None and [p1[i] for i in p2] == ident:
        cls = "inverse"
    elif p2 == ident:
        cls = "identity"
    elif p2 == p1:
        cls = "same"
    else:
        cls = "other"
    g.features.add(f"planted:transpose_transpose:p2_{cls}")
    outs = []
    a = _transpose(g, x, p1)
    if not a:
        return None
    k = _extra_consumer(g, a[0], outs)
    if k != "none":
        g.features.add(f"planted:transpose_transpose:inner_extra_{k}")
    b = _transpose(g, a[0], p2)
    if not b:
        return None
    cur = b[0]
    if g.chance(2):
        c = _transpose(g, cur, _perm(g, r, "random"))
        if c:
            outs.append(cur) if g.chance(3) else None
            cur = c[0]
            g.features.add("planted:transpose_transpose:chain3")
    outs.append(cur)
    return outs


# ------------------------------------------------------------------------------------------------ Unsqueeze o Unsqueeze
def _axes(g, newrank, k, force=None):
    ax = list(g.draw(st.lists(st.integers(0, newrank - 1), min_size=k, max_size=k, unique=True)))
    if force is not None and k == 1 and 0 <= force < newrank:
        ax = [force]
    spell = g.pick(["pos", "pos", "pos", "pos", "pos", "neg", "mixed"])
    if spell == "neg":
        ax = [a - newrank for a in ax]
    elif spell == "mixed":
        ax = [a - newrank if g.chance(5) else a for a in ax]
    if not g.chance(7):
        ax = list(g.draw(st.permutations(ax)))
    else:
        ax = sorted(ax)
    return ax, spell


@register("unsqueeze_unsqueeze_rule")
def host_unsqueeze_unsqueeze(g):
    if g.chance(1):
        g.set_opset(g.pick([11, 12]))
    g.features.add("planted:unsqueeze_unsqueeze")
    dt = g.pick(SHAPE_DTYPES)
    shape = _shape(g, [0, 1, 1, 2, 2, 3], zero=1)
    x, mode = _inp(g, dt, shape)
    if g.chance(2):
        x = _via_node(g, x)
    r = len(shape)
    k1 = g.pick([1, 1, 1, 1, 1, 1, 2])
    k2 = g.pick([1, 1, 1, 1, 1, 1, 2])
    a1, s1 = _axes(g, r + k1, k1)
    rel = g.pick(["any", "any", "equal", "below", "below", "above"])
    force = None
    if k1 == 1 and k2 == 1:
        v1 = a1[0] % (r + 1)
        force = {"equal": v1, "below": v1 - 1, "above": v1 + 1}.get(rel)
    a2, s2 = _axes(g, r + k1 + k2, k2, force)
    g.features.add(f"planted:unsqueeze_unsqueeze:k{k1}{k2}")
    g.features.add(f"planted:unsqueeze_unsqueeze:spell_{s1}_{s2}")
    g.features.add(f"planted:unsqueeze_unsqueeze:rank{r}")
    if k1 == 1 and k2 == 1:
        v1, v2 = a1[0] % (r + 1), a2[0] % (r + 2)
        g.features.add("planted:unsqueeze_unsqueeze:order_" + ("lt" if v1 < v2 else "eq" if v1 == v2 else "gt"))
    outs = []
    if g.opset < 13:
        g.features.add("planted:unsqueeze_unsqueeze:attr_form")
        if any(a < 0 for a in a1 + a2) and g.opset < 11:
            return None
        a = g.emit("Unsqueeze", [x], axes=a1)
        if not a:
            return None
        _extra_consumer(g, a[0], outs)
        b = g.emit("Unsqueeze", [a[0]], axes=a2)
        return (outs + b) if b else None
    tags = set()
    c1 = _const_or_not(g, np.asarray(a1, dtype=np.int64), tags)
    a = g.emit("Unsqueeze", [x, c1])
    if not a:
        return None
    k = _extra_consumer(g, a[0], outs)
    if k != "none":
        g.features.add(f"planted:unsqueeze_unsqueeze:inner_extra_{k}")
    c2 = c1 if (a1 == a2 and g.chance(5)) else _const_or_not(g, np.asarray(a2, dtype=np.int64), tags)
    if c2 is c1:
        g.features.add("planted:unsqueeze_unsqueeze:shared_axes_value")
    for t in tags:
        g.features.add(f"planted:unsqueeze_unsqueeze:axes_{t}")
    b = g.emit("Unsqueeze", [a[0], c2])
    if not b:
        return None
    cur = b[0]
    if g.chance(2):
        a3, _ = _axes(g, cur.rank + 1, 1)
        c = g.emit("Unsqueeze", [cur, _ints(g, a3)])
        if c:
            cur = c[0]
            g.features.add("planted:unsqueeze_unsqueeze:chain3")
    return outs + [cur]


# ------------------------------------------------------------------------------------------------ Squeeze + Reshape([-1])
@register("squeeze_reshape_1d_rule")
def host_squeeze_reshape(g):
    if g.chance(1):
        g.set_opset(g.pick([11, 12]))
    g.features.add("planted:squeeze_reshape")
    dt = g.pick(SHAPE_DTYPES)
    n = g.pick([2, 3, 5])
    kind = g.pick(["one", "one", "one", "n", "n", "n", "zero", "sym_one", "sym_one", "sym_n", "sym_n", "none_n", "r2_1n", "r2_n1", "r2_11", "r0"])
    shape = {"one": (1,), "n": (n,), "zero": (0,), "sym_one": (1,), "sym_n": (n,), "none_n": (n,), "r2_1n": (1, n), "r2_n1": (n, 1), "r2_11": (1, 1), "r0": ()}[kind]
    sym = "sym_all" if kind.startswith("sym") else "none_all" if kind == "none_n" else "static"
    x, _ = _inp(g, dt, shape, sym=sym)
    if g.chance(2):
        x = _via_node(g, x)
        g.features.add("planted:squeeze_reshape:x_node")
    g.features.add(f"planted:squeeze_reshape:x_{kind}")
    ones = [i for i, d in enumerate(shape) if d == 1]
    sq = g.pick(["bare", "bare", "bare", "axes"])
    if sq == "axes" and ones:
        ax = [g.pick(ones)]
        if g.chance(5):
            ax = [a - len(shape) for a in ax]
        g.features.add("planted:squeeze_reshape:squeeze_axes_" + ("input" if g.opset >= 13 else "attr"))
        s = g.emit("Squeeze", [x, _ints(g, ax)]) if g.opset >= 13 else g.emit("Squeeze", [x], axes=ax)
    else:
        g.features.add("planted:squeeze_reshape:squeeze_bare")
        s = g.emit("Squeeze", [x])
    if not s:
        return None
    outs = []
    k = _extra_consumer(g, s[0], outs)
    if k != "none":
        g.features.add(f"planted:squeeze_reshape:inner_extra_{k}")
    size = int(s[0].arr.size)
    tv = g.pick(["m1", "m1", "m1", "m1", "explicit", "1_m1", "m1_1", "zero_copy"])
    tgt = {"m1": [-1], "explicit": [size], "1_m1": [1, -1], "m1_1": [-1, 1], "zero_copy": [0]}[tv]
    if tv == "zero_copy" and s[0].rank < 1:
        tv, tgt = "m1", [-1]
    if size == 0 and tv in ("1_m1", "m1_1"):
        tv, tgt = "m1", [-1]
    g.features.add(f"planted:squeeze_reshape:target_{tv}")
    attrs = {}
    if g.opset >= 14 and g.chance(3):
        attrs["allowzero"] = g.pick([0, 1])
        if attrs["allowzero"] == 1 and tv == "zero_copy" and size != 0:
            attrs["allowzero"] = 0
        g.features.add(f"planted:squeeze_reshape:allowzero_{attrs['allowzero']}")
    tags = set()
    shp = _const_or_not(g, np.asarray(tgt, dtype=np.int64), tags)
    g.features.add(f"planted:squeeze_reshape:shape_{sorted(tags)[0]}")
    r = g.emit("Reshape", [s[0], shp], **attrs)
    if not r:
        return None
    return outs + r
