"""Hosts for rules/common/_min_max_to_clip.py, _fuse_relus_clips.py, _cast_constant_of_shape.py, _collapse_slices.py,
_materialize_reshape_shape.py.

min_min_rule / max_max_rule / min_max_rule / max_min_rule   -- Op2(Op1(x, c...), d...)
  drawn: Op1, Op2 in {Min, Max} (biased to the rule under test, the other three combinations are also generated); arity of
  each node 1..3 (arity 1 = no constant at all); dtype float32/float64/float16/int32/int64/int8/uint8; x rank 0..3, dims 1..3, x a graph
  input or the output of a node (type only known through value_info), declared dims static or symbolic; every constant
  independently: shape [] / [1] / [1,1] / [1]*(rank+1) / vector (last dim of x) / full shape of x, value from an edge list
  (negative, fractional, +-inf for floats, so lower > upper happens regularly), materialised as Constant node / initializer /
  overridable initializer-input; near-misses: a non-constant operand (second graph input, or Identity(constant)), x as the
  second operand of the inner node, inner node as second operand of the outer node; inner output also a graph output.
  A drawn "clean" profile (7 of 10 for Min/Max pairs, 5 of 10 for equal ops) restricts all operands to true constants with one element and arity >= 2 (the side
  conditions of the two Clip fusions); for Max(Min(x, ub), lb) the lower bound is kept <= ub in 8 of 10 draws.  Constant VALUES
  are a function of one integer seed drawn first (g.seed()), all structural choices are individual draws.
  dtypes also int8 / uint8.
  NOT enumerated: NaN constants, bfloat16 / 16-bit ints / uint16..64, constants that broadcast x to a larger shape other
  than through the leading-1 forms, opset < 13.

successive_relu_rule / successive_clip_rule / successive_clip_relu_rule / successive_relu_clip_rule  -- Relu/Clip chains
  drawn: chain of 2 (sometimes 3) ops from {Relu, Clip} (biased to the rule under test); per Clip: no bound / min only /
  max only (min omitted as "" ) / both / trailing inputs omitted; bound values from an edge list (negative, zero, fractional,
  inverted min > max within one Clip and across the two Clips); bound as Constant node / initializer / overridable
  initializer-input (near-miss) / graph input (near-miss) / Identity(constant) (near-miss); dtype float32/float64/float16/
  int32/int8 (+ int64/uint8 for Clip-only chains; Relu on ints pins opset >= 14; onnxruntime has no Relu-14 int64 kernel so that
  combination is rare); x a graph input or a node output; static or symbolic dims; inner output also a graph output; Clip-6
  attribute form (min/max attributes, float32) at opset 9/10.  "clean" profile (6 of 10): all bounds true constants.  Bound
  VALUES are a function of one seed drawn first.  (The rules read the dtype of the Clip's first input, so they only fire when the
  assembly mode gives the intermediate a value_info entry.)
  NOT enumerated: non-scalar ([1]) bounds (invalid per spec), NaN bounds, uint16..64 / int16, bfloat16.

cast_constant_of_shape_rule / cast_constant_of_shape_without_value_rule  -- Cast(ConstantOfShape(shape[, value=v]), to=t)
  drawn (value dtype, value and target type as a function of one seed drawn first; the rest individually): value absent /
  present; v dtype over float16/32/64, (u)int8/16/32/64, bool; v from a per-dtype edge list (negative,
  fractional, large, -0.0, inf, nan, min/max of the type), v tensor shape [1] (rank 0 is rejected by onnx type inference); t over the same dtypes plus STRING (from
  integer / bool v only) and bfloat16; shape operand: constant (Constant / initializer / overridable) [2] [2,3] [] [1] [1,2,1] [0],
  or dynamic (Shape of a graph input, static or symbolic dims); Cast.saturate attribute at opset >= 19; ConstantOfShape output
  also a graph output (extra consumer).  Undefined casts are excluded by construction: non-finite or out-of-range float ->
  integer (incl. negative float -> unsigned).  Well defined and generated: negative / out-of-range integer -> narrower or
  unsigned integer (two's complement wrap), float -> float overflow to inf, anything -> bool, fraction -> int truncation.
  NOT enumerated: float8 / int4 types, v of dtype bfloat16, STRING from floating v (runtime-specific formatting).

collapse_slice_rule / collapse_slice2_rule  -- Slice(x, starts, ends, axes, steps)
  drawn: x rank 1..3, dims 1..4, dtype float32/int64/bool/float64, static or partly symbolic declared dims, x input or node
  output; number of sliced axes 1..rank; per axis start in {0 (mostly), 1, -dim, -1}, end in {dim, dim+1, dim-1, 1, INT64_MAX,
  INT32_MAX, -1}, step in {1 (mostly), -1, 2}, full reverse (start -1, end INT64_MIN, step -1); axes non-negative or negative;
  index dtype int64 / int32; starts/ends/axes/steps each as Constant node / initializer / overridable initializer; 3-, 4- and
  5-input forms (only the 5-input form can match), axes omitted ("") with steps present; graph outputs declared with static
  shapes or rank only; slice output consumed by a further node (so that it carries value_info in
  2 of 3 assemblies) or directly a graph output (rank-only annotation).
  NOT enumerated: duplicate axes (invalid), step 0 (invalid), zero-size dims, steps/ends that are computed at run time.

materialize_reshape_shape_rule  -- Reshape(x, shape) with a non-constant shape
  drawn: shape operand = Shape(y) for a second input y of equal size / Shape(x) / Concat(Shape(x)[0:1], const tail) /
  Concat(Shape<start,end>(x), const) / Concat(const [-1], const) / Concat of constants without -1 / Identity(const) /
  overridable initializer (near-miss: "already constant") / plain constant (near-miss) ; x dims static, one symbolic, two symbolic;
  zero-size x ((2,0), (0,3)) ; target rank 1..3 (rank-1 graph outputs are annotated [?] = exactly one symbolic dim); allowzero
  attribute absent / 0 / 1 at opset >= 14; opset 13 pinned in 2 of 10; reshape output consumed by a further node or a graph output;
  graph outputs declared with static shapes (4 of 10 when no input dim is symbolic) or rank only.
  Whether the output shape is known statically / with one symbolic dim / two symbolic dims (near-miss) follows from the drawn
  assembly mode (no value_info / sample shapes / onnx shape inference with or without data propagation).
  NOT enumerated: shape operands that are a true run-time input (other feeds would make the host fail), dtype other than
  float32/int64/float64.

Implementation notes: "static graph outputs" is requested from the assembler through g.cfg["output_shapes"] = "static" (the
only cfg key touched).  _rare()/_mostly() keep near-miss switches off at the minimal draw and at the end points of the
underlying integer draw, which Hypothesis over-represents; pick lists carry the common choice first and last for the same reason.
"""
from __future__ import annotations

import numpy as np
from onnx import TensorProto, numpy_helper

from vf.hyp import st
from vf.modelgen import BOOL, F16, F32, F64, I32, I64, U8, np2onnx
from vf.rulehosts.plant import register

I8 = np.dtype("int8")
INT64_MAX = 2**63 - 1
INT64_MIN = -(2**63)
SYMS = ["N", "M", "K", "L"]


# ------------------------------------------------------------------------------------------------ shared helpers
def _rare(g, num, den=10):
    """Probability num/den, but False at BOTH ends of the underlying integer draw: Hypothesis over-represents the minimal
    (all-zero) draw and the range end points, and the plain instance should be what those produce."""
    return 1 <= g.draw(st.integers(0, den - 1)) <= num


def _mostly(g, num, den=10):
    return not _rare(g, den - num, den)


def _x(g, dtypes, ranks=(2, 1, 0, 3, 2), dim_choices=(2, 3, 1, 2), sym=3, via_node=3, shape=None):
    """A fresh data operand: graph input (static or symbolic declared dims), optionally passed through Identity so that its
    type/shape is known to the rewriter only through value_info."""
    dt = np.dtype(g.pick(list(dtypes)))
    if shape is None:
        rank = g.pick(list(ranks))
        shape = tuple(g.pick(list(dim_choices)) for _ in range(rank))
    dims = None
    if len(shape) and _rare(g, sym):
        dims = [SYMS[i] if g.chance(5) else d for i, d in enumerate(shape)]
        if dims == list(shape):
            dims[0] = SYMS[0]
        if _rare(g, 2):
            dims = [None if isinstance(d, str) else d for d in dims]
    v = g.add_input(dt, shape, style=g.pick(["mixed", "edge", "smallint"]), dims=dims)
    if _rare(g, via_node):
        r = g.emit("Identity", [v])
        if r:
            g.features.add("planted:x_via_node")
            return r[0]
    return v


def _static_outputs(g, tag, num=3):
    """Declare graph outputs with their static shapes (as exported models usually do) instead of rank only.  Only when no
    declared input dim is symbolic, so that the declaration holds for every feed."""
    if "symbolic_dims" not in g.features and _rare(g, num):
        g.cfg["output_shapes"] = "static"
        g.features.add(f"{tag}:static_outputs")


def _finish(g, outs, inner=None, p_inner=2):
    """Optionally make an intermediate value a graph output too (extra consumer)."""
    if outs and inner is not None and _rare(g, p_inner):
        g.features.add("planted:inner_is_output")
        return list(outs) + [inner]
    return outs


# ------------------------------------------------------------------------------------------------ Min / Max
_MM_F = [0.0, 1.0, -1.0, 0.5, -0.5, 2.0, -2.0, 3.0, 6.0, -3.0, 1e-3, 100.0, -100.0]
_MM_I = [0, 1, -1, 2, -2, 3, 6, -3, 100, -100]


def _mm_const(g, x, state):
    """One 'constant' operand of a Min/Max node.  Returns Val."""
    dt = x.dtype
    clean = state["clean"]
    kind = "const" if clean else g.pick(["const"] * 5 + ["input", "computed"] + ["const"] * 5)
    pool = _MM_F if dt.kind == "f" else _MM_I if dt.kind == "i" else [abs(v) for v in _MM_I]
    rng = state["rng"]
    val = pool[int(rng.integers(len(pool)))]
    if state.get("cap") is not None and _mostly(g, 8):
        # second node of Max(Min(x, ub), lb): mostly keep lb <= ub (the rule's side condition), sometimes not
        ok = [v for v in pool if v <= state["cap"]] or [min(pool)]
        val = ok[int(rng.integers(len(ok)))]
    if dt.kind == "f" and _rare(g, 1, 20):
        val = g.pick([np.inf, -np.inf])
        state["tags"].add("inf")
    state["vals"].append(val)
    shp_kind = g.pick(["scalar"] * 3 + ["one", "one", "oneone", "rank+1"] + ([] if clean else ["vector", "vector", "full", "full"]) + ["scalar"] * 3)
    if shp_kind == "scalar":
        shape = ()
    elif shp_kind == "one":
        shape = (1,)
    elif shp_kind == "oneone":
        shape = (1, 1)
    elif shp_kind == "rank+1":
        shape = (1,) * (x.rank + 1)
    elif shp_kind == "vector":
        shape = tuple(x.shape[-1:])
    else:
        shape = tuple(x.shape)
    if shape == ():
        shp_kind = "scalar"
    state["shapes"].add(shp_kind)
    arr = np.full(shape, val, dtype=dt)
    if arr.size > 1 and g.chance(7):
        arr = rng.choice(np.asarray(pool), size=shape).astype(dt)
    if kind == "input":
        v = g.add_input(dt, shape, style="smallint")
        state["tags"].add("nonconst_input")
        return v
    if kind == "computed":
        c = g.const_array(arr, how=g.pick(["node", "init"]))
        r = g.emit("Identity", [c])
        state["tags"].add("nonconst_computed")
        return r[0] if r else c
    how = g.pick(["node", "init"] if clean else ["node", "init", "ovinit", "init"])
    state["hows"].add(how)
    return g.const_array(arr, how=how)


def _minmax(g, prefer):
    rng = np.random.default_rng(g.seed())  # drawn first: constant VALUES are a function of this seed
    op1, op2 = prefer if _mostly(g, 8) else (g.pick(["Min", "Max"]), g.pick(["Min", "Max"]))
    x = _x(g, [F32, F32, F32, F64, F64, I64, I64, I32, I32, F16, I8, U8, F32])
    # "clean" profile: all operands true constants of size 1 (what the Clip fusions require); otherwise everything is free
    clean = _mostly(g, 7 if op1 != op2 else 5)
    state = {"tags": set(), "shapes": set(), "hows": set(), "rng": rng, "clean": clean, "vals": [], "cap": None}
    n1 = g.pick([2, 2, 2, 3, 2, 2] if clean else [2, 2, 1, 3, 2])
    n2 = g.pick([2, 2, 2, 3, 2, 2] if clean else [2, 2, 1, 3, 2])
    c1 = [_mm_const(g, x, state) for _ in range(n1 - 1)]
    if (op1, op2) == ("Min", "Max") and state["vals"]:
        state["cap"] = min(state["vals"])
    ins1 = [x] + c1
    if c1 and not clean and _rare(g, 1):
        ins1 = c1[:1] + [x] + c1[1:]  # x as second operand
        state["tags"].add("x_second")
    r1 = g.emit(op1, ins1)
    if not r1:
        return None
    c2 = [_mm_const(g, r1[0], state) for _ in range(n2 - 1)]
    ins2 = [r1[0]] + c2
    if c2 and not clean and _rare(g, 1):
        ins2 = c2[:1] + [r1[0]] + c2[1:]
        state["tags"].add("inner_second")
    r2 = g.emit(op2, ins2)
    if not r2:
        return None
    tag = f"planted:{op1.lower()}_{op2.lower()}"
    g.features.add(tag)
    g.features.add(f"{tag}:arity{n1}{n2}")
    g.features.add(f"{tag}:dtype_{x.dtype.name}")
    for s in state["shapes"]:
        g.features.add(f"{tag}:cshape_{s}")
    for s in state["hows"]:
        g.features.add(f"{tag}:how_{s}")
    for s in state["tags"]:
        g.features.add(f"{tag}:{s}")
    if not state["tags"] - {"inf"}:
        g.features.add(f"{tag}:all_const")
    if clean:
        g.features.add(f"{tag}:clean_profile")
    if op1 != op2 and n1 > 1 and n2 > 1:
        v1, v2 = state["vals"][: n1 - 1], state["vals"][n1 - 1:]
        lb, ub = (max(v2), min(v1)) if op1 == "Min" else (max(v1), min(v2))
        g.features.add(f"{tag}:{'lb_gt_ub' if lb > ub else 'lb_le_ub'}")
    return r2 if clean else _finish(g, r2, r1[0], p_inner=3)


@register("min_min_rule")
def host_min_min(g):
    return _minmax(g, ("Min", "Min"))


@register("max_max_rule")
def host_max_max(g):
    return _minmax(g, ("Max", "Max"))


@register("min_max_rule")
def host_min_max(g):
    return _minmax(g, ("Min", "Max"))  # FuseMinMaxToClip: Max(Min(x, ub), lb)


@register("max_min_rule")
def host_max_min(g):
    return _minmax(g, ("Max", "Min"))  # FuseMaxMinToClip: Min(Max(x, lb), ub)


# ------------------------------------------------------------------------------------------------ Relu / Clip
_RC_F = [0.0, 1.0, -1.0, 6.0, -5.0, 0.5, -0.5, 2.0, 3.0, -2.0, 1e-3]
_RC_I = [0, 1, -1, 6, -5, 2, 3, -2]


def _clip_bound(g, dt, state):
    pool = _RC_F if dt.kind == "f" else _RC_I
    val = pool[int(state["rng"].integers(len(pool)))]
    if dt.kind == "u":
        val = abs(val)
    arr = np.asarray(val, dtype=dt)
    how = g.pick(["init", "node"]) if state["clean"] else g.pick(["node"] * 4 + ["ovinit", "input", "computed"] + ["init"] * 4)
    state["bounds"].append(float(val))
    if how == "input":
        v = g.add_input(dt, (), style="smallint")
        state["tags"].add("bound_graph_input")
        return v
    if how == "computed":
        c = g.const_array(arr, how=g.pick(["node", "init"]))
        r = g.emit("Identity", [c])
        state["tags"].add("bound_computed")
        return r[0] if r else c
    if how == "ovinit":
        state["tags"].add("bound_ovinit")
    return g.const_array(arr, how=how)


def _clip(g, x, state, old_form):
    form = g.pick(["both", "both", "min", "max", "none", "both"])
    state["forms"].append(form)
    if old_form:
        attrs = {}
        if form in ("min", "both"):
            attrs["min"] = float(_RC_F[int(state["rng"].integers(len(_RC_F)))])
        if form in ("max", "both"):
            attrs["max"] = float(_RC_F[int(state["rng"].integers(len(_RC_F)))])
        return g.emit("Clip", [x], **attrs)
    ins = [x]
    if form == "min":
        ins.append(_clip_bound(g, x.dtype, state))
        if _rare(g, 2):
            ins.append(None)  # explicit empty trailing input is dropped below
    elif form == "max":
        ins += [None, _clip_bound(g, x.dtype, state)]
    elif form == "both":
        lo = _clip_bound(g, x.dtype, state)
        hi = _clip_bound(g, x.dtype, state)
        ins += [lo, hi]
        if state["bounds"][-2] > state["bounds"][-1]:
            state["tags"].add("inverted")
    while ins and ins[-1] is None:
        ins.pop()
    return g.emit("Clip", ins)


def _reluclip(g, prefer):
    rng = np.random.default_rng(g.seed())  # drawn first: bound VALUES are a function of this seed
    ops = list(prefer) if _mostly(g, 8) else [g.pick(["Relu", "Clip"]), g.pick(["Relu", "Clip"])]
    if _rare(g, 1):
        ops.append(g.pick(["Relu", "Clip"]))
    old_form = "Clip" in ops and _rare(g, 1, 20)
    # onnxruntime: Relu-14 has no int64 kernel, Clip-6 is float32 only -> those combinations stay rare / out
    dts = [F32, F32, F64, F16, I32, I32, I8] + ([I64, I64, U8] if "Relu" not in ops else [I64] if _rare(g, 2) else []) + [F32]
    if old_form:
        g.set_opset(g.pick([9, 10]))
        old_form = g.opset < 11
        dts = [F32]
    dt = np.dtype(g.pick(dts))
    if dt.kind in "iu" and "Relu" in ops and g.opset < 14:
        g.set_opset(g.pick([14, 17, 18, 21]))
        if g.opset < 14:
            dt = np.dtype(F32)
    if dt != F32 and g.opset < 11:
        dt = np.dtype(F32)
    x = _x(g, [dt])
    state = {"tags": set(), "forms": [], "bounds": [], "rng": rng, "clean": _mostly(g, 6)}
    cur, inner = x, None
    for i, op in enumerate(ops):
        r = g.emit("Relu", [cur]) if op == "Relu" else _clip(g, cur, state, old_form)
        if not r:
            return None
        if i == 0:
            inner = r[0]
        cur = r[0]
    tag = "planted:" + "_".join(o.lower() for o in ops[:2])
    g.features.add(tag)
    if len(ops) > 2:
        g.features.add(f"{tag}:chain3")
    g.features.add(f"{tag}:dtype_{dt.name}")
    if old_form:
        g.features.add(f"{tag}:clip6_attr_form")
    for f in state["forms"]:
        g.features.add(f"{tag}:clip_{f}")
    for t in state["tags"]:
        g.features.add(f"{tag}:{t}")
    if state["bounds"] and min(state["bounds"]) < 0:
        g.features.add(f"{tag}:negative_bound")
    if not state["tags"] - {"inverted"}:
        g.features.add(f"{tag}:all_const")
    return _finish(g, [cur], inner, p_inner=1 if state["clean"] else 3)


@register("successive_relu_rule")
def host_relu_relu(g):
    return _reluclip(g, ("Relu", "Relu"))


@register("successive_clip_rule")
def host_clip_clip(g):
    return _reluclip(g, ("Clip", "Clip"))


@register("successive_clip_relu_rule")
def host_clip_relu(g):
    return _reluclip(g, ("Relu", "Clip"))  # FuseSuccessiveClipRelu: Clip(Relu(x))


@register("successive_relu_clip_rule")
def host_relu_clip(g):
    return _reluclip(g, ("Clip", "Relu"))  # FuseSuccessiveReluClip: Relu(Clip(x))


# ------------------------------------------------------------------------------------------------ Cast(ConstantOfShape)
_ENABLE_STRING = True  # to=STRING: the rule builds a STRING tensor holding a python number (unserialisable result)
_COS_DT = [np.dtype(n) for n in ("float32", "float64", "float16", "int8", "int16", "int32", "int64", "uint8", "uint16", "uint32", "uint64", "bool")]


def _cos_values(dt):
    if dt == BOOL:
        return [True, False]
    if dt.kind == "f":
        vals = [0.0, -0.0, 1.0, -1.0, 2.5, -2.5, 0.1, 0.999, -0.999, 1e-3, 255.0, 256.0, 300.7, -129.0, 70000.0, 1e10, -1e10,
                3e38, float("inf"), float("-inf"), float("nan"), 16777217.0, 2147483648.0, 1e-8, 65504.0, 65520.0]
        if dt == F16:
            vals = [v for v in vals if not np.isfinite(v) or abs(v) <= 65504]
        if dt == F64:
            vals += [1e300, 0.1 + 1e-12, 9007199254740993.0, 1e-320]
        return vals
    info = np.iinfo(dt)
    vals = [0, 1, 2, 3, 7, 100, 127, 128, 200, 255, 256, 300, 32767, 32768, 65535, 65536, 16777217, 2**31 - 1, 2**31, 2**32 - 1, 2**32,
            2**53 + 1, 2**63 - 1, 2**63, 2**64 - 1, -1, -2, -128, -129, -200, -32768, -32769, -(2**31), -(2**31) - 1, -(2**63)]
    return [v for v in vals if info.min <= v <= info.max]


def _cast_defined(v, src, to):
    """True when Cast(src value v -> to) is defined by the ONNX spec (and reproducible across runtimes)."""
    if to is None:  # STRING
        return src.kind in "iub"
    if src.kind == "f" and to.kind in "iu":
        fv = float(v)
        if not np.isfinite(fv):
            return False
        info = np.iinfo(to)
        t = np.trunc(fv)
        if to.kind == "u" and fv < 0 and t != 0:
            return False
        if to.kind == "u" and fv < 0:
            return False  # -0.5 -> unsigned: keep out, some kernels go through a signed intermediate
        return info.min < t < info.max and abs(t) < 2**62
    return True


def _cast_cos(g, prefer_value):
    rng = np.random.default_rng(g.seed())  # drawn first: value dtype, value and target type are a function of this seed
    with_value = prefer_value if _mostly(g, 8) else not prefer_value
    tag = "planted:cast_cos" if with_value else "planted:cast_cos_novalue"
    # ---- shape operand
    skind = g.pick(["const"] * 3 + ["dynamic"] * 4 + ["const"] * 3)
    if skind == "dynamic":
        y = _x(g, [F32, I64, BOOL], ranks=(2, 1, 2, 3), via_node=1)
        attrs = {}
        if g.opset >= 15 and _rare(g, 2):
            attrs["start"] = g.pick([0, 1, -1])
        r = g.emit("Shape", [y], **attrs)
        if not r:
            return None
        shape = r[0]
    else:
        tgt = g.pick([[2], [2, 3], [3, 1, 2], [], [1], [1, 2, 1], [0], [2, 0]])
        how = g.pick(["node", "init", "init", "ovinit"])
        if how == "ovinit":
            skind = "ovinit"
        shape = g.const_array(np.asarray(tgt, dtype=np.int64), how=how)
        if not tgt:
            g.features.add(f"{tag}:shape_empty")
        if 0 in tgt:
            g.features.add(f"{tag}:zero_size")
    # ---- value
    attrs = {}
    src = np.dtype(F32)
    v = 0.0
    if with_value:
        src = _COS_DT[int(rng.integers(len(_COS_DT)))]
        vals = _cos_values(src)
        v = vals[int(rng.integers(len(vals)))]
        vshape = (1,)
        with np.errstate(all="ignore"):
            attrs["value"] = numpy_helper.from_array(np.full(vshape, v, dtype=src), name="value")
    # ---- target type
    targets = list(_COS_DT) + ([None] if _ENABLE_STRING else []) + ["bfloat16"]
    to = targets[int(rng.integers(len(targets)))]
    if to == "bfloat16":
        to_enum, to_name = TensorProto.BFLOAT16, "bfloat16"
    elif to is None:
        if not _cast_defined(v, src, None):
            to = np.dtype([F32, I64, BOOL, np.dtype("uint8")][int(rng.integers(4))])
            to_enum, to_name = np2onnx(to), to.name
        else:
            to_enum, to_name = TensorProto.STRING, "string"
    else:
        to_enum, to_name = np2onnx(to), to.name
    if isinstance(to, np.dtype) and not _cast_defined(v, src, to):
        # undefined float -> int: fall back to a defined target of the same flavour
        to = np.dtype([F32, F64, F16, BOOL][int(rng.integers(4))])
        to_enum, to_name = np2onnx(to), to.name
        g.features.add(f"{tag}:ub_avoided")
    c = g.emit("ConstantOfShape", [shape], **attrs)
    if not c:
        return None
    cattrs = {"to": int(to_enum)}
    if g.opset >= 19 and _rare(g, 2):
        cattrs["saturate"] = g.pick([0, 1])
        g.features.add(f"{tag}:saturate_attr")
    r = g.emit("Cast", [c[0]], **cattrs)
    if not r:
        return None
    g.features.add(tag)
    g.features.add(f"{tag}:shape_{skind}")
    g.features.add(f"{tag}:from_{src.name}")
    g.features.add(f"{tag}:to_{to_name}")
    if with_value:
        if src.kind in "iu" and isinstance(to, np.dtype) and to.kind in "iu" and not (np.iinfo(to).min <= int(v) <= np.iinfo(to).max):
            g.features.add(f"{tag}:int_wrap")
        if src.kind in "iu" and int(v) < 0:
            g.features.add(f"{tag}:negative")
        if src.kind == "f" and np.isfinite(float(v)) and float(v) != np.trunc(float(v)):
            g.features.add(f"{tag}:fractional")
        if src.kind == "f" and not np.isfinite(float(v)):
            g.features.add(f"{tag}:nonfinite")
    return _finish(g, r, c[0], p_inner=1)


@register("cast_constant_of_shape_rule")
def host_cast_cos(g):
    return _cast_cos(g, True)


@register("cast_constant_of_shape_without_value_rule")
def host_cast_cos_novalue(g):
    return _cast_cos(g, False)


# ------------------------------------------------------------------------------------------------ Slice
def _slice(g, flavour):
    x = _x(g, [F32, F32, I64, BOOL, F64], ranks=(2, 1, 2, 3), dim_choices=(3, 2, 4, 1), sym=3, via_node=3)
    rank = x.rank
    tag = "planted:slice"
    single = _mostly(g, 7)
    naxes = 1 if single else g.pick(list(range(1, rank + 1)))
    perm = list(g.draw(_PERMS(rank)))
    axes = perm[:naxes]
    if g.chance(5):
        axes = sorted(axes)
    starts, ends, steps = [], [], []
    cls = set()
    for i, a in enumerate(axes):
        d = x.shape[a]
        k = 6 if flavour == 2 else 3
        mode = g.pick(["full"] * k + ["start", "short", "step", "reverse"] + ["full"] * k)
        if mode in ("step", "reverse") and d < 2:
            # a stride only shows on an axis with at least two elements: move to such an axis when there is one
            alt = [b for b in range(rank) if b not in axes and x.shape[b] >= 2]
            if alt:
                a = axes[i] = alt[0]
                d = x.shape[a]
        if mode == "full":
            s, st = 0, 1
            e = g.pick([d, d, d + 1, d + 5, INT64_MAX, INT64_MAX, 2**31 - 1])
            cls.add("end_eq" if e == d else "end_max" if e == INT64_MAX else "end_gt")
        elif mode == "start":
            s = g.pick([1, -d, -1, d])
            e = g.pick([d, INT64_MAX, d + 1])
            st = 1
            cls.add("start_neg_full" if s == -d else "start_nonzero")
        elif mode == "short":
            s, st = 0, 1
            e = g.pick([d - 1, 1, -1, 0, -d - 1])
            cls.add("end_eq" if e == d else "end_lt")
        elif mode == "step":
            s, e, st = 0, g.pick([INT64_MAX, d, INT64_MAX]), g.pick([2, 3])  # (Hypothesis favours the first element: the open end is what exporters write)
            cls.add("step_gt1")
        else:
            s, e, st = g.pick([-1, d - 1, d, INT64_MAX]), g.pick([INT64_MIN, -d - 1, -d - 2]), -1
            cls.add("reverse")
        starts.append(s)
        ends.append(e)
        steps.append(st)
    neg_axes = _rare(g, 3)
    if neg_axes:
        axes = [a - rank for a in axes]
        cls.add("neg_axis")
    idt = np.int64
    if _rare(g, 2) and all(-(2**31) <= v < 2**31 for v in starts + ends):
        idt = np.int32
        cls.add("int32_index")

    def c(vals):
        how = g.pick(["node", "node", "init", "init", "init", "ovinit"] if _rare(g, 3) else ["node", "init"])
        if how == "ovinit":
            cls.add("ovinit_operand")
        return g.const_array(np.asarray(vals, dtype=idt), how=how)

    ins = [x, c(starts), c(ends)]
    n_in = g.pick([5] * 4 + [4, 3] + [5] * 4)
    default_axes = [a % rank for a in axes] == list(range(len(axes)))
    if all(s == 1 for s in steps) and n_in < 5:
        if n_in == 4 or not default_axes:
            ins.append(c(axes))
            n_in = 4
        cls.add(f"inputs{n_in}")
    elif default_axes and not neg_axes and _rare(g, 1):
        ins += [None, c(steps)]  # axes omitted (""), steps given: axes default to 0..k-1
        cls.add("axes_omitted")
    else:
        ins += [c(axes), c(steps)]
    r = g.emit("Slice", ins)
    if not r:
        return None
    g.features.add(tag)
    g.features.add(f"{tag}:{'single_axis' if len(axes) == 1 else 'multi_axis'}")
    for k in cls:
        g.features.add(f"{tag}:{k}")
    if r[0].shape == x.shape:
        g.features.add(f"{tag}:same_shape")
    # consumer: gives the slice output a value_info entry in the 'sample' / 'infer' assemblies
    _static_outputs(g, tag, 5 if flavour == 2 else 3)
    want_consumer = _mostly(g, 8) if flavour == 2 else _rare(g, 4)
    if want_consumer:
        g.features.add(f"{tag}:consumed")
        r2 = g.emit("Identity" if x.dtype == BOOL or g.chance(5) else "Abs", [r[0]])
        if r2:
            return _finish(g, r2, r[0], p_inner=1)
    return r


def _PERMS(rank):
    return st.permutations(list(range(rank)))


@register("collapse_slice_rule")
def host_slice1(g):
    return _slice(g, 1)


@register("collapse_slice2_rule")
def host_slice2(g):
    return _slice(g, 2)


# ------------------------------------------------------------------------------------------------ Reshape with dynamic shape
def _i64(g, vals, how=None):
    return g.const_array(np.asarray(vals, dtype=np.int64), how=how or g.pick(["node", "init"]))


def _reshape(g):
    tag = "planted:mat_reshape"
    if _rare(g, 2):
        g.set_opset(13)
    dt = g.pick([F32, I64, F64, F32])
    zero = _rare(g, 5, 20)
    if zero:
        shape = g.pick([(2, 0), (0, 3), (2, 0, 3)])
        g.features.add(f"{tag}:zero_size")
    else:
        rank = g.pick([2, 1, 2, 3])
        shape = tuple(g.pick([2, 3, 1, 4]) for _ in range(rank))
    x = _x(g, [dt], shape=shape, sym=4, via_node=2)
    rank = x.rank
    size = int(np.prod(shape))
    form = g.pick(["shape_of_y", "shape_of_x", "head_concat", "shape_attr_concat", "minus1_concat", "const_concat", "identity_const",
                   "ovinit", "const", "head_concat", "shape_of_y"])
    if zero and form in ("minus1_concat", "head_concat", "shape_attr_concat"):
        # zero-size data and a run-time target WITHOUT a literal 0: [-1, k] with k a non-zero dim, so that -1 resolves to 0 and the
        # known output shape has its 0 at an index where the input has none (the materialised constant then needs allowzero=1)
        form = g.pick(["shape_of_x", "minus1_zero", "minus1_zero"])
    elif zero and g.chance(4):
        form = "minus1_zero"
    tgt = None
    force_allowzero = False
    if form == "shape_of_y":
        # second input of the same size, statically shaped (sometimes symbolic)
        if zero:
            # a 0 in the target copies the input dim unless allowzero=1 -> the permuted target needs allowzero (opset >= 14)
            force_allowzero = g.opset >= 14 and g.chance(5)
            yshape = tuple(reversed(shape)) if force_allowzero else shape
        else:
            yshape = tuple(g.pick(_factorisations(size)))
        y = _x(g, [F32, I64], shape=yshape, sym=2, via_node=1)
        r = g.emit("Shape", [y])
        tgt = r[0] if r else None
    elif form == "shape_of_x":
        r = g.emit("Shape", [x])
        tgt = r[0] if r else None
    elif form == "head_concat":
        # Concat(Slice(Shape(x), 0, 1), [prod of the rest])  /  [-1]
        r = g.emit("Shape", [x])
        if not r:
            return None
        h = g.emit("Slice", [r[0], _i64(g, [0]), _i64(g, [1])])
        if not h:
            return None
        rest = int(np.prod(shape[1:]))
        tail = g.pick([[rest], [-1], [1, rest], [rest, 1], [1, -1]])
        t = g.emit("Concat", [h[0], _i64(g, tail)], axis=0)
        tgt = t[0] if t else None
    elif form == "shape_attr_concat":
        if g.opset < 15:
            r = g.emit("Shape", [x])
            if not r:
                return None
            h = g.emit("Gather", [r[0], _i64(g, [0])], axis=0)
        else:
            h = g.emit("Shape", [x], start=0, end=1)
        if not h:
            return None
        rest = int(np.prod(shape[1:]))
        parts = [h[0], _i64(g, g.pick([[rest], [-1], [rest, 1]]))]
        if _rare(g, 3):
            parts = [_i64(g, [1])] + parts
        t = g.emit("Concat", parts, axis=0)
        tgt = t[0] if t else None
    elif form == "minus1_concat":
        fac = list(g.pick(_factorisations(size)))
        i = g.pick(list(range(len(fac))))
        fac[i] = -1
        if len(fac) == 1:
            parts = [_i64(g, fac), _i64(g, [1])] if g.chance(5) else [_i64(g, [1]), _i64(g, fac)]
        else:
            k = g.pick(list(range(1, len(fac))))
            parts = [_i64(g, fac[:k]), _i64(g, fac[k:])]
        t = g.emit("Concat", parts, axis=0)
        tgt = t[0] if t else None
    elif form == "minus1_zero":
        nz = [d for d in shape if d != 0] or [1]
        k = g.pick(nz + [1, 2])
        # mostly the orientation in which the resulting 0 sits at an index where the input dim is not 0 ("0 = copy" would be wrong there)
        first = (shape[0] != 0) if g.chance(8) else (shape[0] == 0)
        parts = [_i64(g, [-1]), _i64(g, [k])] if first else [_i64(g, [k]), _i64(g, [-1])]
        t = g.emit("Concat", parts, axis=0)
        tgt = t[0] if t else None
    elif form == "const_concat":
        fac = list(g.pick(_factorisations(size))) if not zero else list(shape)
        if len(fac) == 1:
            fac = fac + [1]
        k = g.pick(list(range(1, len(fac))))
        t = g.emit("Concat", [_i64(g, fac[:k]), _i64(g, fac[k:])], axis=0)
        tgt = t[0] if t else None
    elif form == "identity_const":
        fac = list(g.pick(_factorisations(size))) if not zero else list(shape)
        t = g.emit("Identity", [_i64(g, fac)])
        tgt = t[0] if t else None
    elif form == "ovinit":
        fac = list(g.pick(_factorisations(size))) if not zero else list(shape)
        tgt = _i64(g, fac, how="ovinit")
    else:
        fac = list(g.pick(_factorisations(size))) if not zero else list(shape)
        tgt = _i64(g, fac)
    if tgt is None:
        return None
    attrs = {}
    if force_allowzero:
        attrs["allowzero"] = 1
        g.features.add(f"{tag}:allowzero1")
    elif g.opset >= 14 and _rare(g, 3):
        az = g.pick([0, 1])
        tv = np.asarray(tgt.arr).tolist()
        if az == 1 and 0 in tv and -1 in tv:
            az = 0
        attrs["allowzero"] = az
        g.features.add(f"{tag}:allowzero{az}")
    r = g.emit("Reshape", [x, tgt], **attrs)
    if not r:
        return None
    g.features.add(tag)
    g.features.add(f"{tag}:{form}")
    g.features.add(f"{tag}:opset{'13' if g.opset < 14 else '14+'}")
    g.features.add(f"{tag}:out_rank{r[0].rank}")
    _static_outputs(g, tag, 4)
    if _mostly(g, 7):
        g.features.add(f"{tag}:consumed")
        r2 = g.emit(g.pick(["Identity", "Abs"]), [r[0]])
        if r2:
            return _finish(g, r2, r[0], p_inner=1)
    return r


def _factorisations(size):
    if size == 0:
        return [(0,)]
    out = {(size,), (1, size), (size, 1)}
    for a in range(2, size):
        if size % a == 0:
            b = size // a
            out.add((a, b))
            out.add((1, a, b))
            for c in range(2, b):
                if b % c == 0:
                    out.add((a, c, b // c))
    return sorted(out)


@register("materialize_reshape_shape_rule")
def host_materialize_reshape(g):
    return _reshape(g)
