"""Hosts for rules/common/_no_op.py: mul_by_1, add_0 (commuted), sub_0, div_by_1, dropout_zero, dropout_inference.

Parameters drawn: constant as Constant node / initializer / overridable initializer-input; constant dtype follows x;
constant shape [], [1], [1,1], leading-1 extension beyond x's rank; constant value = literal, literal +- 1e-9,
literal*(1 +- 1e-6), literal*(1 +- 1e-4), other; x rank 0-3 and dtype float32/float64/int64/float16; x values
incl. 1e-9 scale (so that absorbing an eps-sized addend is visible); operand order; Dropout at opset <=11
(attribute form) and >=12 (input form), 1 or 2 outputs.
Not enumerated: bfloat16, constants produced by a computed (non-constant) subgraph other than the near-miss below.
"""
from __future__ import annotations

import numpy as np

from vf.modelgen import F16, F32, F64, I64, make_array
from vf.rulehosts.plant import register


def _x(g, dtypes=(F32, F32, F64, I64, F16)):
    v = g.pick_val(lambda v: v.dtype in dtypes and v.kind != "const") if g.chance(5) else None
    if v is None:
        dt = g.pick(dtypes)
        rank = g.pick([0, 1, 2, 2, 3])
        shape = tuple(g.pick([1, 2, 3]) for _ in range(rank))
        v = g.add_input(dt, shape, style=g.pick(["mixed", "edge", "smallint"]))
        if dt.kind == "f" and g.chance(3):
            v.arr[...] = (v.arr * 1e-9).astype(dt)  # eps-scale data
    return v


def _const(g, x, lit):
    dt = x.dtype
    variant = g.pick(["exact", "exact", "exact", "eps_abs", "rel_1e-6", "rel_1e-4", "other"]) if dt.kind == "f" else g.pick(["exact", "exact", "other"])
    val = float(lit)
    if variant == "eps_abs":
        val = lit + g.pick([1e-9, -1e-9, 5e-9])
    elif variant == "rel_1e-6":
        val = lit * (1 + g.pick([1e-6, -1e-6])) if lit else g.pick([1e-6, -1e-6])
    elif variant == "rel_1e-4":
        val = lit * (1 + g.pick([1e-4, -1e-4])) if lit else g.pick([1e-4, -1e-4])
    elif variant == "other":
        val = g.pick([2, -1, 0.5, 3]) if dt.kind == "f" else g.pick([2, -1, 3])
    shape = g.pick([(), (), (1,), (1, 1), (1,) * (x.rank + 1)])
    arr = np.full(shape, val, dtype=dt)
    how = g.pick(["node", "init", "ovinit", "computed"])
    if how == "computed":
        c0 = g.const_array(arr, how="init")
        r = g.emit("Identity", [c0])  # still constant-propagatable
        if g.chance(5):
            # genuinely non-constant: depends on a graph input
            z = g.emit("Mul", [x, g.const_array(np.zeros((), dtype=dt))])
            if z and z[0].arr.size == 1:
                r = g.emit("Add", [c0, g.emit("Reshape", [z[0], g.const_array(np.asarray(shape, dtype=np.int64))])[0]]) or r
        c = r[0] if r else c0
    else:
        c = g.const_array(arr, how=how)
    return c, f"{variant}:{'x'.join(map(str, shape)) or 'scalar'}:{how}"


def _binary(g, op, lit, commutes, tag):
    x = _x(g)
    c, variant = _const(g, x, lit)
    ins = [x, c]
    if commutes and g.chance(5):
        ins = [c, x]
    g.features.add(f"planted:{tag}")
    g.features.add(f"planted:{tag}:{variant.split(':')[0]}")
    return g.emit(op, ins)


@register("mul_by_1_rule")
def host_mul_by_1(g):
    return _binary(g, "Mul", 1, True, "mul_by_1")


@register("add_0_rule")
def host_add_0(g):
    return _binary(g, "Add", 0, True, "add_0")


@register("sub_0_rule")
def host_sub_0(g):
    return _binary(g, "Sub", 0, g.chance(2), "sub_0")  # swapped = near-miss (0 - x)


@register("div_by_1_rule")
def host_div_by_1(g):
    return _binary(g, "Div", 1, g.chance(2), "div_by_1")  # swapped = near-miss (1 / x)


@register("dropout_zero_rule", "dropout_inference_rule")
def host_dropout(g):
    x = _x(g, (F32, F32, F64))
    nout = g.pick([1, 1, 2])
    g.features.add("planted:dropout")
    if g.chance(5):
        g.set_opset(g.pick([10, 11]))
    if g.opset >= 12:
        form = g.pick(["bare", "ratio0", "ratio0.5", "train_false", "ratio_absent_train_false", "train_true"])
        ins = [x]
        if form == "ratio0":
            ins.append(g.const_array(np.asarray(0.0, dtype=np.float32)))
        elif form == "ratio0.5":
            ins.append(g.const_array(np.asarray(0.5, dtype=np.float32)))
        elif form == "train_false":
            ins += [g.const_array(np.asarray(0.5, dtype=np.float32)), g.const_array(np.asarray(False))]
        elif form == "ratio_absent_train_false":
            ins += [None, g.const_array(np.asarray(False))]
        elif form == "train_true":
            # training mode with ratio 0 is still deterministic (mask all true)
            ins += [g.const_array(np.asarray(0.0, dtype=np.float32)), g.const_array(np.asarray(True))]
        g.features.add("planted:dropout:" + form)
        return g.emit("Dropout", ins, n_out=nout)
    ratio = g.pick([0.0, 0.5, None])
    attrs = {} if ratio is None else {"ratio": ratio}
    g.features.add("planted:dropout:attr_form")
    return g.emit("Dropout", [x], n_out=nout, **attrs)


def plant_if_scopes(g):
    """Two or three Ifs at one level whose branches own initializers and node outputs with the SAME names (disjoint scopes), conditions
    constant / folded / dynamic: inlining or lifting anything out of one branch must not capture the other scopes' names."""
    if g.depth:
        return None
    outs = []
    n = g.pick([2, 2, 3, 3, 4])
    for i in range(n):
        r = g.g_if(how=g.pick(["const", "const", "const", "folded", "dynamic"]), branch=["binary", "binary", "const"], reuse=True)
        if r:
            outs.extend(r)
    if len(outs) >= 2:
        g.features.add("planted:if_scopes")
    return outs or None


def plant_operator_table(g):
    """Nodes of the operators that exporters / printers render with Python operator syntax (arithmetic, comparison, logic, unary minus,
    MatMul, Mod with and without fmod, Pow), on integer and floating-point inputs of either sign, their results kept as graph outputs:
    whatever a rendering drops (an attribute, the operand order) shows in the values."""
    import numpy as np
    from vf.modelgen import BOOL, F32, I32, I64

    if g.depth:
        return None
    dt = g.pick([I64, I64, I32, F32])
    n = g.pick([3, 2, 4])
    x = g.add_input(dt, (n,), style="mixed")
    outs = []
    for _ in range(g.pick([2, 3, 4])):
        op = g.pick(["Mod", "Mod", "Sub", "Div", "Add", "Mul", "Less", "Greater", "LessOrEqual", "GreaterOrEqual", "Equal", "Neg", "Pow", "MatMul", "And", "Or", "Not"])
        vals = [g.pick([2, 3, -3, 5, -2, 7]) for _ in range(n)]
        w = g.const_array(np.asarray(vals, dtype=dt), how=g.pick(["node", "init"]))
        swap = g.chance(3)
        a, b = (w, x) if swap and op not in ("Mod", "Div", "Pow") else (x, w)
        if op == "Mod":
            fm = 1 if (dt == F32 or g.chance(6)) else 0
            r = g.emit("Mod", [a, b], **({"fmod": 1} if fm else {}))
        elif op == "Pow":
            r = g.emit("Pow", [g.emit("Abs", [x])[0], g.const_array(np.asarray(g.pick([2, 3, 1]), dtype=dt))]) if dt == F32 else None
        elif op == "Neg":
            r = g.emit("Neg", [x])
        elif op == "MatMul":
            r = g.emit("MatMul", [a, b])
        elif op in ("And", "Or", "Not"):
            c1 = g.emit("Less", [x, w])
            c2 = g.emit("Greater", [x, g.const_array(np.asarray([0] * n, dtype=dt))])
            if not c1 or not c2:
                continue
            r = g.emit("Not", [c1[0]]) if op == "Not" else g.emit(op, [c1[0], c2[0]])
        else:
            r = g.emit(op, [a, b])
        if r:
            outs.append(r[0])
    if not outs:
        return None
    g.features.add("planted:operator_table")
    return outs


def plant_overridable_shape_operand(g):
    """An overridable initializer (initializer that is also a graph input) used as the shape-determining DATA operand of an operator
    (Reshape target, Expand shape, Tile repeats, ConstantOfShape, Slice bounds, axes, Range limit), followed by shape-only consumers.
    Whatever the transformation derives from the default value is wrong for the caller's override."""
    import numpy as np
    from vf.modelgen import F32, I64

    if g.depth or not g.cfg.get("overridable"):
        return None
    a, b = g.pick([1, 2, 3]), g.pick([2, 3, 4])
    x = g.add_input(g.pick([F32, F32, I64]), (a, b), style="smallint")
    kind = g.pick(["reshape", "reshape", "expand", "tile", "cos", "slice", "axes", "range"])
    ov = lambda v: g.const_array(np.asarray(v, dtype=np.int64), how="ovinit")  # noqa: E731
    c = lambda v: g.const_array(np.asarray(v, dtype=np.int64), how="node")  # noqa: E731
    if kind == "reshape":
        r = g.emit("Reshape", [x, ov(g.pick([[b, a], [a, b], [a * b, 1], [-1, a], [1, a, b]]))])
    elif kind == "expand":
        r = g.emit("Expand", [x, ov(g.pick([[2, a, b], [a, b], [3, 1, 1]]))])
    elif kind == "tile":
        r = g.emit("Tile", [x, ov(g.pick([[1, 2], [2, 1], [3, 2]]))])
    elif kind == "cos":
        r = g.emit("ConstantOfShape", [ov(g.pick([[a, b], [b, a], [2, 3, 1]]))])
    elif kind == "slice":
        r = g.emit("Slice", [x, ov([0, 0]), ov(g.pick([[a, 1], [1, b], [a, b]])), c([0, 1])])
    elif kind == "axes":
        r = g.emit("ReduceSum", [x, ov([g.pick([0, 1, -1])])], keepdims=g.pick([0, 1])) if g.opset >= 13 else None
    else:
        r = g.emit("Range", [c(0), ov(g.pick([3, 4, 2])), c(1)])
    if not r:
        return None
    g.features.add("planted:ov_shape_operand:" + kind)
    outs = list(r)
    for op in (["Shape", "Size"] if g.chance(5) else ["Shape"]):
        d = g.emit(op, [r[0]])
        if d:
            outs += d
    if r[0].rank >= 1 and g.chance(5):
        f = g.emit("Flatten", [r[0]], axis=g.pick([0, 1])) if r[0].rank >= 1 else None
        if f:
            outs += f
    return outs


def plant_loop_scopes(g):
    """Two Loops at one level whose bodies use the SAME local names (formal inputs, initializers, node outputs), followed by a reader of the
    FIRST loop's result placed after the second loop: a translation that turns body names into variables of one enclosing scope (or an
    optimizer that hoists body nodes) must keep the two scopes apart."""
    if g.depth or "g_loop" in g.cfg.get("disable", ()):
        return None
    plain = g.chance(6)  # plain for-loops (trip count only) most of the time
    r1 = g.g_loop(plain_for=plain)
    if not r1:
        return None
    r2 = g.g_loop(reuse=True, plain_for=plain)
    if not r2:
        return None
    g.features.add("planted:loop_scopes")
    outs = [r1[0], r2[0]]
    a, b = r1[0], r2[0]
    if a.dtype == b.dtype and a.shape == b.shape and a.dtype.kind in "fi":
        r = g.emit(g.pick(["Sub", "Add"]), [a, b])
    else:
        r = g.emit("Identity", [a])
    if r:
        outs += r
    return outs
