"""Host strategies per shipped rewrite rule (DESIGN appendix A)."""


def planters():
    try:
        from vf.rulehosts.plant import PLANTERS
        return list(PLANTERS)
    except ImportError:
        return []
