"""Host strategies per shipped rewrite rule (DESIGN appendix A)."""


def planters():
    try:
        from vf.rulehosts.plant import PLANTERS
        from vf.rulehosts.plant_noop import plant_if_scopes, plant_loop_scopes, plant_overridable_shape_operand

        n = max(2, len(PLANTERS) // 12)  # general idioms that are not hosts of one rule: about 8% of the planted patterns
        return list(PLANTERS) + [plant_if_scopes] * n + [plant_overridable_shape_operand] * n + [plant_loop_scopes] * n
    except ImportError:
        return []
