"""Registry of host strategies ("planters").

A planter is `fn(g: vf.modelgen.Gen) -> list[Val] | None`.  It draws parameters through g (g.pick, g.chance,
g.draw, g.seed), obtains operands (g.pick_val(...) or g.add_input(...) - it must work on an empty Gen),
emits nodes with g.emit / constants with g.const_array, tags g.features with "planted:<name>[:variant]" and
returns the output values of the planted instance (they become graph outputs in C05's minimal hosts).
Instances AND near-misses are both wanted: the oracle only looks at cases where the rule fired.
"""
from __future__ import annotations

import importlib

HOSTS: dict = {}
PLANTERS: list = []
def scenario(g, scenarios):
    """Stratified top-level choice.  C05 runs a planter that declares `fn.strata = len(scenarios)` once per stratum k (its own
    Hypothesis run, g.cfg["stratum"] = k) and the planter takes scenarios[k]; without a stratum (the planter used inside the random
    models of C03/C04/C09/C14) it returns None and the planter draws as before.  Reason: Hypothesis' draws clump at budgets of a few
    hundred hosts (observed: 2 hosts instead of the expected 14 in one near-miss class at one seed), and a class that is reached by luck
    is not covered."""
    k = g.cfg.get("stratum")
    if k is None:
        return None
    return scenarios[k % len(scenarios)]


def register(*rule_names):
    def deco(fn):
        for r in rule_names:
            HOSTS.setdefault(r, []).append(fn)
        if fn not in PLANTERS:
            PLANTERS.append(fn)
        return fn

    return deco


for _m in ("plant_noop", "plant_basic", "plant_clip", "plant_linalg", "plant_conv", "plant_misc", "plant_fusion"):
    try:
        importlib.import_module("vf.rulehosts." + _m)
    except ModuleNotFoundError as e:
        if _m not in str(e):
            raise
