"""Hosts for rules/common/_redundant_scatter_nd.py and rules/common/_remove_expand_before_binary_op.py.

no_op_static_scatter_nd_rule  (ScatterND(data, const indices, updates) -> Identity(updates))
  drawn: dtype f32/f64/f16/i32/i64/bool; data shape [N]+rest, N 1..4, rest (), (1,), (2,), (3,), (2,2); data as graph input
  (static dims / symbolic first dim "N" / anonymous first dim) / Constant / initializer / intermediate (Neg or Identity of an
  input: shape known only through value_info); indices = arange(N)[:,None] in order / permuted / partial (first k<N rows) /
  with a duplicate row / negative (i-N) / shape [1,N,1] / index depth 2 ([i,0] rows); indices as Constant / initializer /
  overridable initializer-input / graph input (non-constant) / Identity(initializer) (not a constant for the rule);
  updates as input (same / different symbolic name than data, anonymous) / Constant / initializer / overridable / Identity(input);
  reduction attribute absent / "none" / "add" / "mul" (opset>=16) / "max" / "min" (opset>=18); extra consumer of data.
  One "deviation" (indices / indices source / reduction) is drawn per host, or all at once ("any").
  NOT enumerated: bfloat16/uint dtypes, string tensors, N>4, index depth > 2, zero-size dims.

no_op_dynamic_scatter_nd_rule (ScatterND(T(data), Unsqueeze(Range(0, Gather(Shape(data), axis), 1), [-1]), updates, reduction="none"))
  drawn: data rank 1..3 f32/f64/i64, axis anywhere in [-rank, rank) as scalar Constant / initializer / overridable;
  Shape with start=0 (opset>=15) / without start / with start=0,end=rank / start=0,end=-1 (drops the last dim: changes what a
  negative axis means); Gather axis attr 0 / absent; Range start 0 / 1, delta 1 / 2; Unsqueeze axes [-1] / [1];
  transposed data = Transpose(data, axis to front) / data itself (axis 0) / an unrelated tensor with the same or a LARGER
  first dim (near-miss); axis dim static / symbolic (shared or distinct names); reduction absent / none / add / mul / max / min;
  updates as input / Transpose(input); result transposed back or returned directly.  One deviation class per host, or "any".
  NOT enumerated: axis given as 1-element vector (Range needs scalars), Shape on non-input values, zero-size dims.

expand_before_binary_op_rules (38 rules: Bin(Expand(x, s), y) and Bin(x, Expand(y, s)) for 19 ops)
  drawn: op in all 19 with their attributes (BitShift.direction LEFT/RIGHT, Mod.fmod absent/0/1) and dtypes legal for the host
  opset (Add/Sub/Mul/Div f32 f64 f16 i32 i64 (+u8 from 14); Pow float base with same/f32/i64/i32 exponent; Mod ints and
  floats(fmod=1); PRelu f32/f64/f16/i32/i64 with unidirectional slope; And/Or/Xor bool; BitShift u8/u32/u64; Bitwise* i32/i64/u8
  (opset>=18); Equal incl. bool; comparisons numeric); expand on first / second / both operands; base output shape rank 1..3 with
  dims in {1,2,3}; x, y, s derived by dropping leading dims and replacing dims by 1 (so every near-miss where y does not supply
  the expanded dim appears), s = x.shape (no-op), s all ones, s shorter than x, s LONGER than both operands (leading 1s or
  leading >1); s as Constant / initializer / overridable initializer / Shape(z) of another input (dynamic, survives all feeds) /
  Concat of Shape slice and constant (a raw int64 graph input as shape is not drawn: its value
  would change between feeds and contradict sample-derived value_info); operand as graph input with static / named symbolic /
  operand-private symbolic / anonymous dims, Constant, initializer, or intermediate (shape only via value_info); value_info of the
  Expand output dropped so that only the op output is annotated (op output wrapped in Identity to make it an intermediate);
  extra consumer of the Expand output; integer divisors / shift amounts kept legal for every feed (constants or Abs+1 / Mod 8).
  NOT enumerated: bfloat16, string Equal, uint16, expand shape with -1 (illegal), zero-size dims, ops inside subgraphs.

All categorical choices come from a numpy Generator seeded by six Hypothesis-drawn integers (class _Rng) and re-keyed with the
payload of each new graph input: Hypothesis' own sampled_from clumps (mutation chains that copy integer draws around) and starved
the 19x2 op grid at 150 cases; tensors and the host opset are still direct Hypothesis draws.
"""
from __future__ import annotations

import zlib

import numpy as np

from vf.modelgen import BOOL, F16, F32, F64, I32, I64, U8, make_array
from vf.rulehosts.plant import register, scenario

U32, U64 = np.dtype("uint32"), np.dtype("uint64")


class _Rng:
    """Uniform categorical choices from ONE Hypothesis-drawn seed (Hypothesis' own sampled_from clumps on a 150-case budget,
    which starves the 19 ops x 2 positions grid); everything stays a pure function of Hypothesis draws."""

    def __init__(self, g):
        self.key = [g.seed() for _ in range(6)]
        self.r = np.random.default_rng(self.key)

    def mix(self, val):
        """Fold a later Hypothesis-drawn payload (the sample array of a new input) into the stream, so that Hypothesis' habit of
        re-running an example with only some integer draws copied around yields a structurally different host, not a clone."""
        a = np.ascontiguousarray(val.arr)
        self.key = self.key[:6] + [zlib.crc32(a.tobytes()), int(self.r.integers(0, 2**31 - 1))]
        self.r = np.random.default_rng(self.key)
        return val

    def pick(self, seq):
        seq = list(seq)
        return seq[int(self.r.integers(0, len(seq)))]

    def chance(self, num, den=10):
        return int(self.r.integers(0, den)) < num


# ----------------------------------------------------------------------------------------------- ScatterND (static)
def _sym_first(g, shape, mode, name="N"):
    if mode == "static" or not shape:
        return list(shape)
    return [name if mode == "named" else None] + list(shape[1:])


_SCATTER_STATIC_SCENARIOS = [("none", "in_order"), ("indices", "permuted"), ("indices", "partial"), ("indices", "duplicate"), ("indices", "negative"),
                             ("indices", "q3"), ("indices", "depth2"), ("indices_how", "in_order"), ("reduction", "in_order"), ("any", "permuted"),
                             ("any", "in_order"), ("none", "in_order")]


@register("no_op_static_scatter_nd_rule")
def host_scatter_static(g):
    tag = "planted:scatter_static"
    g.features.add(tag)
    rr = _Rng(g)
    dt = rr.pick([F32, F32, F64, I64, I32, F16, BOOL])
    n = rr.pick([1, 2, 3, 3, 4])
    rest = rr.pick([(), (), (1,), (2,), (3,), (2, 2)])
    dshape = (n,) + rest
    sym = rr.pick(["static", "static", "static", "named", "anon"])
    dsrc = rr.pick(["input", "input", "input", "const", "mid"])
    if dsrc == "input":
        data = rr.mix(g.add_input(dt, dshape, dims=_sym_first(g, dshape, sym)))
    elif dsrc == "const":
        data = g.const_array(make_array(g.seed(), dt, dshape), how=rr.pick(["node", "init"]))
        sym = "static"
    else:
        base = rr.mix(g.add_input(dt, dshape, dims=_sym_first(g, dshape, sym)))
        r = g.emit("Identity" if dt == BOOL or rr.chance(5) else "Neg", [base])
        if not r:
            return None
        data = r[0]
    g.features.add(f"{tag}:data_{dsrc}_{sym}")

    # one deviation from the textbook instance at a time (plus a fully random mode) so that the instance class stays frequent
    sc = scenario(g, _SCATTER_STATIC_SCENARIOS)
    if sc is not None:
        dev, iv = sc
    else:
        dev = rr.pick(["none", "none", "none", "indices", "indices", "indices_how", "reduction", "reduction", "any", "any"])
        iv = rr.pick(["permuted", "partial", "duplicate", "negative", "q3", "depth2", "in_order"]) if dev in ("indices", "any") else "in_order"
    if iv == "permuted" and n < 2:
        iv = "in_order"
    if iv == "partial" and n < 2:
        iv = "in_order"
    if iv == "depth2" and len(dshape) < 2:
        iv = "in_order"
    ar = np.arange(n, dtype=np.int64)
    if iv == "in_order":
        idx = ar[:, None]
    elif iv == "permuted":
        p = np.random.default_rng(g.seed()).permutation(n)
        if np.array_equal(p, ar):
            p = ar[::-1].copy()
        idx = p.astype(np.int64)[:, None]
    elif iv == "partial":
        k = rr.pick(list(range(1, n)))
        idx = ar[:k, None]
    elif iv == "duplicate":
        idx = ar[:, None].copy()
        idx[-1, 0] = 0
    elif iv == "negative":
        idx = (ar - n)[:, None]
    elif iv == "q3":
        idx = ar[None, :, None]
    else:  # depth2: rows [i, 0]
        idx = np.stack([ar, np.zeros_like(ar)], axis=1)
    g.features.add(f"{tag}:idx_{iv}")
    ihow = rr.pick(["node", "init", "ovinit", "input", "identity"]) if dev in ("indices_how", "any") else rr.pick(["node", "init"])
    if ihow == "input":
        indices = g.add_input(I64, idx.shape)
        indices.arr[...] = idx  # the sample binding is legal; other feeds may fail (host then skipped for that feed)
    elif ihow == "identity":
        r = g.emit("Identity", [g.const_array(idx, how="init")])
        if not r:
            return None
        indices = r[0]
    else:
        indices = g.const_array(idx, how=ihow)
    g.features.add(f"{tag}:indices_{ihow}")

    ushape = tuple(idx.shape[:-1]) + tuple(dshape[idx.shape[-1]:])
    usrc = rr.pick(["input", "input", "input", "const", "mid"])
    usym = sym if rr.chance(7) else rr.pick(["static", "named_other", "anon"])
    if usrc == "const":
        updates = g.const_array(make_array(g.seed(), dt, ushape), how=rr.pick(["node", "init", "ovinit"]))
    else:
        if usym in ("static",) or ushape[:1] != (n,):
            udims = list(ushape)
        elif usym == "named":
            udims = ["N"] + list(ushape[1:])
        elif usym == "named_other":
            udims = ["M"] + list(ushape[1:])
        else:
            udims = [None] + list(ushape[1:])
        updates = g.add_input(dt, ushape, dims=udims)
        if usrc == "mid":
            r = g.emit("Identity", [updates])
            if not r:
                return None
            updates = r[0]
    g.features.add(f"{tag}:updates_{usrc}")

    reds = ["absent", "absent"]
    if g.opset >= 16:
        reds += ["none", "none"]
        if dt != BOOL:
            reds += ["add", "add", "mul"]
    if g.opset >= 18 and dt != BOOL:
        reds += ["max", "min"]
    red = rr.pick(reds) if dev in ("reduction", "any") else rr.pick(reds[:3])
    g.features.add(f"{tag}:reduction_{red}")
    attrs = {} if red == "absent" else {"reduction": red}
    out = g.emit("ScatterND", [data, indices, updates], **attrs)
    if not out:
        return None
    outs = list(out)
    if dsrc == "mid" and rr.chance(3):
        outs.append(data)
    return outs


# ----------------------------------------------------------------------------------------------- ScatterND (dynamic)
host_scatter_static.strata = len(_SCATTER_STATIC_SCENARIOS)


@register("no_op_dynamic_scatter_nd_rule")
def host_scatter_dynamic(g):
    tag = "planted:scatter_dynamic"
    g.features.add(tag)
    rr = _Rng(g)
    if g.opset < 16 and rr.chance(7):
        g.set_opset(rr.pick([16, 17, 18, 21, 23]))
    dt = rr.pick([F32, F32, F64, I64])
    # one deviation from the idiom at a time (plus "any" = all drawn independently)
    dev = rr.pick(["none", "none", "none", "none", "shape", "shape", "shape", "gather", "range", "unsq", "td", "reduction", "reduction", "any"])
    g.features.add(f"{tag}:dev_{dev}")

    def dv(kind, normal, others):
        return rr.pick(list(others) + [normal]) if dev in (kind, "any") else normal

    sv = dv("shape", "start0", ["nostart", "start0_end", "start0_endm1", "start0_endm1"]) if g.opset >= 15 else "nostart"
    if sv == "start0_endm1":
        rank = rr.pick([2, 3])
        shape = tuple(rr.pick([1, 2, 3, 4]) for _ in range(rank))
        axis = rr.pick(list(range(-(rank - 1), 0)))
        # Shape(data)[:-1][axis] is dim rank-1+axis, the rule reads data.shape[axis] = dim rank+axis: keep the true one the smaller
        # of the two so that the scatter stays in range (a partial update when strictly smaller)
        lo, hi = rank - 1 + axis, rank + axis
        if shape[lo] > shape[hi]:
            sl = list(shape)
            sl[lo], sl[hi] = sl[hi], sl[lo]
            shape = tuple(sl)
    else:
        rank = rr.pick([1, 2, 2, 3, 3])
        shape = tuple(rr.pick([1, 2, 3, 4]) for _ in range(rank))
        axis = rr.pick(list(range(-rank, rank)))
    pa = axis % rank

    sym = rr.pick(["static", "static", "named", "named", "anon"])
    ddims = list(shape)
    if sym == "named":
        ddims[pa] = "N"
    elif sym == "anon":
        ddims[pa] = None
    data = rr.mix(g.add_input(dt, shape, dims=ddims))
    g.features.add(f"{tag}:dim_{sym}")
    g.features.add(f"{tag}:axis_{'neg' if axis < 0 else 'nonneg'}")

    # Shape(data)
    gather_idx = axis
    sattrs = {}
    if sv in ("start0", "start0_end", "start0_endm1"):
        sattrs["start"] = 0
    if sv == "start0_end":
        sattrs["end"] = rank
    if sv == "start0_endm1":
        sattrs["end"] = -1  # Shape yields the first rank-1 dims; negative axis now counts from dim rank-2
    g.features.add(f"{tag}:shape_{sv}")
    shp = g.emit("Shape", [data], **sattrs)
    if not shp:
        return None
    nshape = shp[0].arr.shape[0]
    if not (-nshape <= gather_idx < nshape):
        return None
    axis_c = g.const_array(np.asarray(gather_idx, dtype=np.int64), how=rr.pick(["node", "node", "init", "ovinit"]))
    gattrs = {"axis": 0} if dv("gather", True, [False]) else {}
    g.features.add(f"{tag}:gather_axis_{'attr' if gattrs else 'absent'}")
    dim = g.emit("Gather", [shp[0], axis_c], **gattrs)
    if not dim:
        return None
    dimv = int(dim[0].arr)
    start, delta = dv("range", (0, 1), [(1, 1), (0, 2)])
    if dimv < 2:
        start, delta = 0, 1
    g.features.add(f"{tag}:range_{start}_{delta}")
    c0 = g.const_array(np.asarray(start, dtype=np.int64), how=rr.pick(["node", "init"]))
    c1 = g.const_array(np.asarray(delta, dtype=np.int64), how=rr.pick(["node", "init"]))
    rng = g.emit("Range", [c0, dim[0], c1])
    if not rng:
        return None
    m = rng[0].arr.shape[0]
    if m == 0:
        return None
    uax = dv("unsq", -1, [1])
    g.features.add(f"{tag}:unsq_{uax}")
    idx = g.emit("Unsqueeze", [rng[0], g.const_array(np.asarray([uax], dtype=np.int64), how=rr.pick(["node", "init"]))])
    if not idx:
        return None

    # which dimension of data does the rule think is updated?  (data.shape[axis]); the true one is shape[:end][axis]
    perm = [pa] + [i for i in range(rank) if i != pa]
    # other_same_sym2: a separate buffer whose first dim has the SAME sample size but its own symbol (buf[:n] = upd with K >= N at run time)
    tv = dv("td", rr.pick(["transpose", "transpose", "self", "other_same", "other_same_sym2", "other_same_sym2", "other_same_sym2"]), ["other_bigger", "other_bigger"])
    if tv == "self" and pa != 0:
        tv = "transpose"
    if tv == "transpose":
        td = g.emit("Transpose", [data], perm=perm)
        if not td:
            return None
        td = td[0]
    elif tv == "self":
        td = data
    else:
        first = shape[pa] + (0 if tv in ("other_same", "other_same_sym2") else rr.pick([1, 2]))
        oshape = (first,) + tuple(rr.pick([1, 2, 3]) for _ in range(rr.pick([0, 1, 2])))
        odims = list(oshape)
        if tv == "other_same_sym2":
            odims[0] = "K"
        elif sym == "named":
            odims[0] = "N" if tv == "other_same" else "M"
        elif sym == "anon":
            odims[0] = None
        td = rr.mix(g.add_input(dt, oshape, dims=odims))
    g.features.add(f"{tag}:td_{tv}")
    ushape = (m,) + tuple(td.shape[1:])
    udims = list(ushape)
    if sym == "named" and m == shape[pa]:
        udims[0] = "N"
    elif sym != "static":
        udims[0] = None
    if rr.chance(5) and tv in ("transpose",) and m == shape[pa]:
        # updates given in data layout and transposed like the data (the torch idiom)
        inv_shape = tuple(ushape[perm.index(i)] for i in range(rank))
        inv_dims = [udims[perm.index(i)] for i in range(rank)]
        u0 = g.add_input(dt, inv_shape, dims=inv_dims)
        u = g.emit("Transpose", [u0], perm=perm)
        if not u:
            return None
        updates = u[0]
    else:
        updates = g.add_input(dt, ushape, dims=udims)
    reds = ["absent"]
    if g.opset >= 16:
        reds += ["add", "mul"]
    if g.opset >= 18:
        reds += ["max", "min"]
    red = dv("reduction", "none", reds) if g.opset >= 16 else "absent"
    g.features.add(f"{tag}:reduction_{red}")
    attrs = {} if red == "absent" else {"reduction": red}
    out = g.emit("ScatterND", [td, idx[0], updates], **attrs)
    if not out:
        return None
    if tv == "transpose" and rr.chance(6):
        inv = [perm.index(i) for i in range(rank)]
        back = g.emit("Transpose", [out[0]], perm=inv)
        if back:
            return back
    return out


# ----------------------------------------------------------------------------------------------- Expand before binary op
_NUM = [F32, F32, F64, F16, I32, I64]
_OPS = {
    # op: (dtypes(opset) -> list, min opset)
    "Add": lambda o: _NUM + ([U8] if o >= 14 else []),
    "Sub": lambda o: _NUM + ([U8] if o >= 14 else []),
    "Mul": lambda o: _NUM + ([U8] if o >= 14 else []),
    "Div": lambda o: _NUM + ([U8] if o >= 14 else []),
    "Pow": lambda o: [F32, F32, F64, F16],
    "Mod": lambda o: [F32, F64, F16, I32, I64, I64, U8],
    "PRelu": lambda o: [F32, F32, F64, F16, I32, I64],
    "And": lambda o: [BOOL],
    "Or": lambda o: [BOOL],
    "Xor": lambda o: [BOOL],
    "BitShift": lambda o: [U8, U8, U32, U64],
    "BitwiseAnd": lambda o: [I32, I64, U8] if o >= 18 else [],
    "BitwiseOr": lambda o: [I32, I64, U8] if o >= 18 else [],
    "BitwiseXor": lambda o: [I32, I64, U8] if o >= 18 else [],
    "Equal": lambda o: _NUM + [BOOL, U8],
    "Greater": lambda o: _NUM + [U8],
    "GreaterOrEqual": lambda o: _NUM + [U8],
    "Less": lambda o: _NUM + [U8],
    "LessOrEqual": lambda o: _NUM + [U8],
}
EXPAND_BINARY_OPS = tuple(_OPS)


def _derive(rr, base, keep_rank=False, p_keep=7):
    """A shape numpy-broadcastable with `base`: a suffix of it with some dims replaced by 1."""
    k = len(base) if keep_rank else rr.pick(list(range(0, len(base) + 1)) + [len(base)] * 2)
    suf = base[len(base) - k:]
    return tuple(d if rr.chance(p_keep) else 1 for d in suf)


def _decl_dims(rr, shape, mode, who):
    if mode == "static":
        return list(shape)
    dims = []
    for i, d in enumerate(shape):
        c = rr.pick(["static", "named", "private", "anon"]) if mode == "mixed" else mode
        if c == "static":
            dims.append(d)
        elif c == "named":
            dims.append(f"s{d}")  # equal names <=> equal sizes
        elif c == "private":
            dims.append(f"{who}{len(shape) - i}")
        else:
            dims.append(None)
    return dims


def _operand(g, rr, dt, shape, who, role, tagset):
    """role: None | 'divisor' | 'shift' (values must stay legal for every feed)."""
    mode = rr.pick(["static", "static", "static", "static", "mixed", "named", "anon"])
    if g.cfg.get("symbolic"):  # C09: the bindings of symbolic dims are what is explored - operands mostly carry symbols
        mode = rr.pick(["named", "named", "named", "mixed", "mixed", "anon", "static"])
    src = rr.pick(["input", "input", "input", "input", "const", "mid"])
    integer = dt.kind in "iu"
    if role == "divisor" and integer:
        src = rr.pick(["const", "safe"])
    if role == "shift":
        src = rr.pick(["const", "safe"])
    tagset.add(f"{who}_{src}_{mode if src in ('input', 'mid', 'safe') else 'static'}")
    if src == "const":
        if role == "divisor" and integer:
            arr = make_array(g.seed(), dt, shape, "positive")
            if dt.kind == "i" and rr.chance(5):
                arr = (arr * np.where(make_array(g.seed(), BOOL, shape), 1, -1)).astype(dt)
        elif role == "shift":
            arr = (make_array(g.seed(), dt, shape, "positive") % 8).astype(dt)
        else:
            arr = make_array(g.seed(), dt, shape, rr.pick(["mixed", "edge", "smallint"]))
        return g.const_array(arr, how=rr.pick(["node", "init", "init"]))
    v = rr.mix(g.add_input(dt, shape, dims=_decl_dims(rr, shape, mode, who)))
    if src == "mid":
        r = g.emit("Identity", [v])
        return r[0] if r else None
    if src == "safe":
        if role == "shift":
            r = g.emit("Mod", [v, g.const_array(np.asarray(8, dtype=dt), how="init")])
        elif dt.kind == "u":
            r = g.emit("Mod", [v, g.const_array(np.asarray(7, dtype=dt), how="init")])
            r = r and g.emit("Add", [r[0], g.const_array(np.asarray(1, dtype=dt), how="init")])
        else:
            r = g.emit("Abs", [v])
            r = r and g.emit("Add", [r[0], g.const_array(np.asarray(1, dtype=dt), how="init")])
        return r[0] if r else None
    return v


def _shape_value(g, rr, s, tagset, y=None):
    """The expand target as a value; returns (Val, kind)."""
    s = tuple(int(d) for d in s)
    # (a raw int64 graph input as the shape is NOT drawn: other feeds would change the shape under sample-derived value_info)
    kinds = ["const", "const", "const", "const", "shape_of", "shape_of", "concat"]
    kind = rr.pick(kinds)
    if kind == "concat" and len(s) < 2:
        kind = "shape_of"
    tagset.add(f"s_{kind}")
    arr = np.asarray(s, dtype=np.int64)
    if kind == "const":
        return g.const_array(arr, how=rr.pick(["node", "init", "init", "ovinit"])), kind
    if y is not None and tuple(y.shape) == s and rr.chance(5):
        z = y
    else:
        zmode = rr.pick(["static", "static", "named", "anon"]) if not g.cfg.get("symbolic") else rr.pick(["private", "private", "named", "anon", "static", "mixed"])
        z = g.add_input(rr.pick([F32, I64, BOOL]), s, dims=_decl_dims(rr, s, zmode, "z"))
    if kind == "shape_of":
        r = g.emit("Shape", [z])
        return (r[0] if r else None), kind
    # concat: leading dim dynamic from Shape, the rest constant
    r = g.emit("Shape", [z])
    if not r:
        return None, kind
    if g.opset >= 15 and rr.chance(5):
        head = g.emit("Shape", [z], start=0, end=1)
    else:
        head = g.emit("Slice", [r[0], g.const_array(np.asarray([0], dtype=np.int64), how="init"), g.const_array(np.asarray([1], dtype=np.int64), how="init")])
    if not head:
        return None, kind
    tail = g.const_array(arr[1:], how=rr.pick(["node", "init"]))
    c = g.emit("Concat", [head[0], tail], axis=0)
    return (c[0] if c else None), kind


def _unidirectional(slope_shape, x_shape):
    if len(slope_shape) > len(x_shape):
        return False
    for a, b in zip(slope_shape[::-1], x_shape[::-1]):
        if a != 1 and a != b:
            return False
    return True


@register("expand_before_binary_op_rules")
def host_expand_before_binary_op(g):
    tag = "planted:expand_binop"
    g.features.add(tag)
    rr = _Rng(g)
    op = rr.pick(EXPAND_BINARY_OPS)
    if op.startswith("Bitwise") and g.opset < 18:
        g.set_opset(rr.pick([18, 19, 20, 21, 22, 23]))
    dts = _OPS[op](g.opset)
    if not dts:
        return None
    dt = rr.pick(dts)
    pos = rr.pick(["first", "first", "first", "second", "second", "second", "both"])
    tags = set()

    base = tuple(rr.pick([1, 2, 3, 2, 3]) for _ in range(rr.pick([1, 2, 2, 3])))
    scen = rr.pick(["instance", "instance", "instance", "random", "random", "rank_ext", "noop"])
    tags.add(f"scen_{scen}")

    def plan_one():
        """(expanded-operand shape, s, other-operand shape)"""
        if scen == "instance":
            other = base
            xs = _derive(rr, base)
            s = _derive(rr, base, p_keep=8)
        elif scen == "random":
            other = _derive(rr, base)
            xs = _derive(rr, base)
            s = _derive(rr, base, keep_rank=rr.chance(7), p_keep=8)
        elif scen == "rank_ext":
            other = _derive(rr, base, p_keep=9)
            xs = _derive(rr, base, p_keep=9)
            lead = rr.pick([(1,), (1,), (1, 1), (2,), (1, 2)])
            s = lead + _derive(rr, base, keep_rank=True, p_keep=9)
        else:  # noop
            other = _derive(rr, base)
            xs = _derive(rr, base)
            s = rr.pick([xs, xs, (1,) * len(xs), xs[1:], (1,)])
        return xs, tuple(s), other

    xs, s, ys = plan_one()
    # operand dtypes / roles
    dt_a = dt_b = dt
    if op == "Pow":
        dt_b = rr.pick([dt, dt, F32, I64, I32])
    role_b = None
    if op in ("Div", "Mod"):
        role_b = "divisor"
    if op == "BitShift":
        role_b = "shift"
    attrs = {}
    if op == "BitShift":
        attrs["direction"] = rr.pick(["LEFT", "RIGHT"])
        tags.add("attr_direction_" + attrs["direction"])
    if op == "Mod":
        if dt.kind == "f":
            attrs["fmod"] = 1
        else:
            f = rr.pick(["absent", 0, 1, 1])
            if f != "absent":
                attrs["fmod"] = f
        tags.add(f"attr_fmod_{attrs.get('fmod', 'absent')}")

    # build operands.  a = first input of the op, b = second
    if pos == "first":
        a_shape, b_shape, exp_a, exp_b = xs, ys, s, None
    elif pos == "second":
        a_shape, b_shape, exp_a, exp_b = ys, xs, None, s
    else:
        a_shape, b_shape, exp_a = xs, ys, s
        exp_b = _derive(rr, base, keep_rank=rr.chance(7), p_keep=8) if scen != "rank_ext" else s

    def expanded(shape, e):
        return np.broadcast_shapes(tuple(shape), tuple(e)) if e is not None else tuple(shape)

    if op == "PRelu":
        ea, eb = expanded(a_shape, exp_a), expanded(b_shape, exp_b)
        if not _unidirectional(eb, ea):
            # make the host legal: data operand gets the full base shape, slope side must not outrank it
            a_shape = base if exp_a is None else a_shape
            if exp_a is not None:
                exp_a = base if len(exp_a) <= len(base) else exp_a
            ea = expanded(a_shape, exp_a)
            if not _unidirectional(eb, ea):
                if exp_b is not None:
                    exp_b = tuple(exp_b[-len(ea):]) if len(exp_b) > len(ea) else exp_b
                    eb = expanded(b_shape, exp_b)
                if not _unidirectional(eb, ea):
                    return None

    a = _operand(g, rr, dt_a, a_shape, "a", None, tags)
    b = _operand(g, rr, dt_b, b_shape, "b", role_b, tags)
    if a is None or b is None:
        return None
    extra_outs = []
    expand_outs = []

    def do_expand(v, e, other):
        sv, kind = _shape_value(g, rr, e, tags, y=other)
        if sv is None:
            return None
        r = g.emit("Expand", [v, sv])
        if not r:
            return None
        expand_outs.append(r[0])
        return r[0]

    ia, ib = a, b
    if exp_a is not None:
        ia = do_expand(a, exp_a, b)
        if ia is None:
            return None
    if exp_b is not None:
        ib = do_expand(b, exp_b, a)
        if ib is None:
            return None
    out = g.emit(op, [ia, ib], **attrs)
    if not out:
        return None
    outs = list(out)
    ann = rr.pick(["default", "default", "default", "op_out_only", "extra_consumer"])
    if ann == "op_out_only":
        # make the op output an intermediate (so sample-mode value_info annotates it) and hide the Expand output's annotation
        r = g.emit("Identity", [out[0]])
        if r:
            outs = list(r)
            for e in expand_outs:
                g.value_types.pop(e.name, None)
    elif ann == "extra_consumer":
        outs += expand_outs[:1]
    tags.add(f"ann_{ann}")
    g.features.add(f"{tag}:{op}")
    g.features.add(f"{tag}:{op}:{pos}")
    g.features.add(f"{tag}:pos_{pos}")
    g.features.add(f"{tag}:dtype_{dt.name}")
    for t in tags:
        g.features.add(f"{tag}:{t}")
    return outs
