"""Typed grammar of the ONNX Script subset with two back ends (DESIGN 2.3):
   * source printer  -> Python text for @script()
   * numpy interpreter [[P]]: ordinary Python control flow over numpy arrays, each operator / op.X call
     denoting the documented ONNX operator (onnx.reference kernels), literals promoted to the sibling
     operand's type, attribute parameters promoted to tensors.
Programs are generated *by concrete execution* on a sample input, so every program is type-correct and
executes on at least its sample.  All random choices are Hypothesis draws.
"""
from __future__ import annotations

import dataclasses
import linecache
import sys
import types

import numpy as np
import onnx
import onnx.defs
from onnx import helper

from vf import modelgen
from vf.hyp import st

DT = {"FLOAT": np.dtype("float32"), "DOUBLE": np.dtype("float64"), "INT64": np.dtype("int64"),
      "INT32": np.dtype("int32"), "BOOL": np.dtype("bool")}
NAME_OF = {v: k for k, v in DT.items()}
ONNX_ENUM = {"FLOAT": 1, "DOUBLE": 11, "INT64": 7, "INT32": 6, "BOOL": 9}

BINOPS = {"+": "Add", "-": "Sub", "*": "Mul", "/": "Div", "%": "Mod", "**": "Pow"}
CMPOPS = {"<": "Less", "<=": "LessOrEqual", ">": "Greater", ">=": "GreaterOrEqual", "==": "Equal", "!=": "NotEqual"}


# ----------------------------------------------------------------------------- AST
@dataclasses.dataclass
class Var:
    name: str


@dataclasses.dataclass
class Lit:
    value: object  # int | float | bool | list


@dataclasses.dataclass
class AttrRef:
    name: str  # attribute parameter used where a tensor is expected


@dataclasses.dataclass
class Bin:
    op: str
    left: object
    right: object


@dataclasses.dataclass
class Un:
    op: str  # "-" | "not"
    operand: object


@dataclasses.dataclass
class Call:
    op: str
    args: list  # Expr | None
    attrs: dict
    n_out: int = 1


@dataclasses.dataclass
class SubCall:
    fname: str
    args: list
    attrs: dict  # name -> python value | AttrRef (forwarding is not generated)


@dataclasses.dataclass
class Index:
    base: object
    idx: str  # source text of the subscript


@dataclasses.dataclass
class Tup:
    items: list  # right-hand side of a parallel assignment "a, b = e1, e2" (all evaluated before any target is bound)


@dataclasses.dataclass
class Assign:
    targets: list
    expr: object


@dataclasses.dataclass
class If:
    cond: object
    then: list
    orelse: list


@dataclasses.dataclass
class For:
    var: str
    bound: object  # Lit int | AttrRef | Var (scalar int64)
    body: list
    break_on: str | None = None  # trailing `if <name>: break`


@dataclasses.dataclass
class While:
    cond: str
    body: list
    break_on: str | None = None  # trailing `if <name>: break`


@dataclasses.dataclass
class Raw:
    text: str  # near-miss statements (C02); never interpreted


@dataclasses.dataclass
class Program:
    name: str
    params: list  # (name, dtype_name, rank)
    attrs: list  # (name, kind "float"|"int"|"bool", default | None)
    body: list
    returns: list  # Expr
    ret_types: list  # (dtype_name, rank)
    opset: int = 18
    helpers: list = dataclasses.field(default_factory=list)  # Program
    needs_default_opset: bool = False


# ----------------------------------------------------------------------------- printer
def _ann(dt, rank):
    return dt if rank == 0 else f"{dt}[{', '.join(['None'] * rank)}]"


def _lit(v):
    if isinstance(v, list):
        return "[" + ", ".join(_lit(x) for x in v) + "]"
    if isinstance(v, bool):
        return "True" if v else "False"
    if isinstance(v, float):
        return repr(v)
    return repr(v)


def expr_src(e):
    if e is None:
        return "None"
    if isinstance(e, Var):
        return e.name
    if isinstance(e, Lit):
        return _lit(e.value)
    if isinstance(e, AttrRef):
        return e.name
    if isinstance(e, Bin):
        return f"({expr_src(e.left)} {e.op} {expr_src(e.right)})"
    if isinstance(e, Un):
        return f"(-{expr_src(e.operand)})" if e.op == "-" else f"(not {expr_src(e.operand)})"
    if isinstance(e, Call):
        parts = [expr_src(a) for a in e.args] + [f"{k}={_lit(v) if not isinstance(v, AttrRef) else v.name}" for k, v in e.attrs.items()]
        return f"op.{e.op}({', '.join(parts)})"
    if isinstance(e, SubCall):
        parts = [expr_src(a) for a in e.args] + [f"{k}={_lit(v)}" for k, v in e.attrs.items()]
        return f"{e.fname}({', '.join(parts)})"
    if isinstance(e, Index):
        return f"{expr_src(e.base)}[{e.idx}]"
    if isinstance(e, Tup):
        return ", ".join(expr_src(x) for x in e.items)
    raise TypeError(e)


def stmts_src(stmts, ind):
    out = []
    pad = "    " * ind
    for s in stmts:
        if isinstance(s, Assign):
            out.append(f"{pad}{', '.join(s.targets)} = {expr_src(s.expr)}")
        elif isinstance(s, If):
            out.append(f"{pad}if {expr_src(s.cond)}:")
            out += stmts_src(s.then, ind + 1)
            if s.orelse:
                out.append(f"{pad}else:")
                out += stmts_src(s.orelse, ind + 1)
        elif isinstance(s, For):
            out.append(f"{pad}for {s.var} in range({expr_src(s.bound)}):")
            out += stmts_src(s.body, ind + 1)
            if s.break_on:
                out.append(f"{pad}    if {s.break_on}:")
                out.append(f"{pad}        break")
        elif isinstance(s, While):
            out.append(f"{pad}while {s.cond}:")
            out += stmts_src(s.body, ind + 1)
            if s.break_on:
                out.append(f"{pad}    if {s.break_on}:")
                out.append(f"{pad}        break")
        elif isinstance(s, Raw):
            out += [pad + line for line in s.text.splitlines()]
        else:
            raise TypeError(s)
    return out


def program_src(p: Program, with_helpers=True):
    lines = []
    if with_helpers:
        for h in p.helpers:
            lines += program_src(h, with_helpers=False).splitlines()
            lines.append("")
    params = [f"{n}: {_ann(dt, r)}" for n, dt, r in p.params]
    for n, kind, default in p.attrs:
        params.append(f"{n}: {kind}" + ("" if default is None else f" = {_lit(default)}"))
    rets = [_ann(dt, r) for dt, r in p.ret_types]
    ret = rets[0] if len(rets) == 1 else "(" + ", ".join(rets) + ")"
    deco = "@script(default_opset=op)" if p.needs_default_opset else "@script()"
    lines.append(deco)
    lines.append(f"def {p.name}({', '.join(params)}) -> {ret}:")
    lines += stmts_src(p.body, 1)
    lines.append("    return " + ", ".join(expr_src(e) for e in p.returns))
    return "\n".join(lines) + "\n"


# ----------------------------------------------------------------------------- numpy interpreter
class Interp:
    """[[P]]: reads the program as ordinary Python control flow over tensors."""

    MAX_ITERS = 64

    def __init__(self, prog: Program, registry=None):
        self.prog = prog
        self.registry = registry if registry is not None else {h.name: h for h in prog.helpers}
        self.attr_kinds = {n: k for n, k, _ in prog.attrs}

    def run(self, inputs, attrs):
        env = {n: np.asarray(a) for (n, _, _), a in zip(self.prog.params, inputs)}
        self.attrs = dict(attrs)
        for n, _, d in self.prog.attrs:
            if n not in self.attrs:
                if d is None:
                    raise KeyError(f"attribute {n} required")
                self.attrs[n] = d
        self.block(self.prog.body, env)
        return [self.tensor(self.ev(e, env)) for e in self.prog.returns]

    # values during evaluation: numpy arrays, or ("lit", pyvalue) for polymorphic constants
    def ev(self, e, env):
        if e is None:
            return None
        if isinstance(e, Var):
            return env[e.name]
        if isinstance(e, Lit):
            return ("lit", e.value)
        if isinstance(e, AttrRef):
            v = self.attrs[e.name]
            if self.attr_kinds[e.name] == "bool":
                return ("lit", bool(v))  # attribute bools become BOOL tensors (castable)
            return ("lit", v)
        if isinstance(e, Un):
            v = self.tensor(self.ev(e.operand, env))
            return self.op("Neg" if e.op == "-" else "Not", [v], {})[0]
        if isinstance(e, Bin):
            l, r = self.ev(e.left, env), self.ev(e.right, env)
            attrs = {}
            if e.op in BINOPS:
                name = BINOPS[e.op]
                if name == "Mod" and isinstance(e.right, Lit) and isinstance(e.right.value, float):
                    attrs["fmod"] = 1
            else:
                name = CMPOPS[e.op]
            l, r = self.promote(name if name != "NotEqual" else "Equal", [l, r])
            if name == "Mod" and isinstance(l, np.ndarray) and l.dtype.kind == "f":
                attrs["fmod"] = 1  # `%` on floating-point tensors is C fmod (ONNX defines no other Mod for them; Tensor.__mod__ does the same)
            if name == "NotEqual":
                return self.op("Not", [self.op("Equal", [l, r], {})[0]], {})[0]
            return self.op(name, [l, r], attrs)[0]
        if isinstance(e, Call):
            args = [self.ev(a, env) for a in e.args]
            args = self.promote(e.op, args)
            attrs = {k: (self.attrs[v.name] if isinstance(v, AttrRef) else v) for k, v in e.attrs.items()}
            res = self.op(e.op, args, attrs, n_out=e.n_out)
            return res[0] if e.n_out == 1 else tuple(res)
        if isinstance(e, SubCall):
            callee = self.registry[e.fname]
            args = [self.tensor_for_param(self.ev(a, env), callee, i) for i, a in enumerate(e.args)]
            res = Interp(callee, self.registry).run(args, dict(e.attrs))
            return res[0] if len(res) == 1 else tuple(res)
        if isinstance(e, Tup):
            return tuple(self.tensor(self.ev(x, env)) for x in e.items)
        if isinstance(e, Index):
            base = self.tensor(self.ev(e.base, env))
            return np.asarray(eval(f"base[{e.idx}]", {"base": base, **{k: v for k, v in env.items()}}))  # noqa: S307
        raise TypeError(e)

    def tensor_for_param(self, v, callee, i):
        if isinstance(v, tuple) and v and v[0] == "lit":
            return self.default_tensor(v[1])
        return v

    @staticmethod
    def default_tensor(pv):
        if isinstance(pv, list):
            first = pv[0]
            dt = np.bool_ if isinstance(first, bool) else np.int64 if isinstance(first, int) else np.float32
            return np.asarray(pv, dtype=dt)
        dt = np.bool_ if isinstance(pv, bool) else np.int64 if isinstance(pv, int) else np.float32
        return np.asarray(pv, dtype=dt)

    def tensor(self, v):
        if isinstance(v, tuple) and v and v[0] == "lit":
            return self.default_tensor(v[1])
        return v

    def promote(self, opname, args):
        """Literal -> tensor of the type of the sibling operand that shares its type constraint, else by Python type."""
        if not any(isinstance(a, tuple) and a and a[0] == "lit" for a in args):
            return args
        schema = onnx.defs.get_schema(opname, self.prog.opset, "")
        formals = list(schema.inputs)

        def typestr(i):
            if i < len(formals):
                return formals[i].type_str
            if formals and formals[-1].option == onnx.defs.OpSchema.FormalParameterOption.Variadic:
                return formals[-1].type_str if formals[-1].is_homogeneous else None
            return None

        tvars = {tc.type_param_str for tc in schema.type_constraints}
        bindings = {}
        for i, a in enumerate(args):
            ts = typestr(i)
            if ts in tvars and isinstance(a, np.ndarray):
                bindings[ts] = a.dtype
        out = []
        for i, a in enumerate(args):
            if isinstance(a, tuple) and a and a[0] == "lit":
                ts = typestr(i)
                t = self.default_tensor(a[1])
                if ts in bindings:
                    with np.errstate(all="ignore"):
                        t = t.astype(bindings[ts])
                out.append(t)
            else:
                out.append(a)
        return out

    def op(self, name, args, attrs, n_out=1):
        if name == "Softplus" and len(args) == 1 and isinstance(args[0], np.ndarray):
            # onnx.reference evaluates log(exp(x) + 1) literally (inf for large x); the meaning is the overflow-free form
            with np.errstate(all="ignore"):
                return [np.logaddexp(0, args[0]).astype(args[0].dtype)]
        vals = [modelgen.Val(f"i{i}", np.asarray(a), "node") if a is not None else None for i, a in enumerate(args)]
        node = helper.make_node(name, [v.name if v is not None else "" for v in vals], [f"o{j}" for j in range(n_out)], **attrs)
        res = modelgen.eval_node(node, [v for v in vals if v is not None], self.prog.opset)
        if res is None:
            raise InterpError(f"{name} failed on {[None if a is None else (a.dtype, a.shape) for a in args]}")
        for r in res:
            if isinstance(r, np.ndarray) and r.dtype.kind == "i" and r.dtype.itemsize == 8 and r.size and int(np.abs(r // 4).max()) > 2**58:
                # a loop whose counter the body re-assigns doubles its state until INT64 wraps around: what happens then is not defined by
                # ONNX (and differs between kernels); the program has no meaning on this input
                raise InterpError("integer overflow region")
        return res

    def truth(self, v):
        a = np.asarray(self.tensor(v))
        if a.size != 1:
            raise InterpError("condition is not a single element")
        return bool(a.reshape(()))

    def block(self, stmts, env):
        for s in stmts:
            self.stmt(s, env)

    def stmt(self, s, env):
        if isinstance(s, Assign):
            v = self.ev(s.expr, env)
            if len(s.targets) == 1:
                env[s.targets[0]] = self.tensor(v)
            else:
                for t, x in zip(s.targets, v):
                    env[t] = x
        elif isinstance(s, If):
            if self.truth(self.ev(s.cond, env)):
                self.block(s.then, env)
            else:
                self.block(s.orelse, env)
        elif isinstance(s, For):
            n = int(np.asarray(self.tensor(self.ev(s.bound, env))).reshape(()))
            if n > self.MAX_ITERS:
                raise InterpError("too many iterations")
            for i in range(n):
                env[s.var] = np.asarray(i, dtype=np.int64)
                self.block(s.body, env)
                if s.break_on and self.truth(env[s.break_on]):
                    break
        elif isinstance(s, While):
            k = 0
            while self.truth(env[s.cond]):
                self.block(s.body, env)
                if s.break_on and self.truth(env[s.break_on]):
                    break
                k += 1
                if k > self.MAX_ITERS:
                    raise InterpError("too many iterations")
        else:
            raise TypeError(s)


class InterpError(Exception):
    pass


# ----------------------------------------------------------------------------- generator
UNARY_F = ["Abs", "Relu", "Sigmoid", "Tanh", "Floor", "Ceil", "Identity", "Neg", "Softplus", "Erf", "Sign"]
UNARY_I = ["Abs", "Identity", "Neg", "Sign"]
VARS = ["a", "b", "c", "t", "u", "v", "w", "y", "z", "acc", "tmp", "r",
        # names of the form <base>_<k>: the converter renames re-assigned variables to exactly such names
        "a_1", "b_1", "x_1", "x_2", "y_1", "acc_1", "r_2", "z_0", "w_1", "k_1", "t_3", "c_2"]


class SGen:
    def __init__(self, draw, name="f", allow_helpers=True, allow_attrs=True, max_params=3):
        self.draw = draw
        self.name = name
        self.opset = draw(st.sampled_from([15, 17, 18, 18, 18, 19, 21]))
        self.env = {}  # var -> sample array
        self.params = []
        self.attrs = []
        self.attr_vals = {}
        self.helpers = []
        self.helper_samples = {}
        self.feats = set()
        self.uses_op = False
        self.depth = 0
        self.allow_helpers = allow_helpers
        self.allow_attrs = allow_attrs
        self.max_params = max_params
        self.frozen = set()  # variables that must not be reassigned in the current scope (loop var, captured)
        self.compound_targets = []

    def pick(self, seq):
        return self.draw(st.sampled_from(list(seq)))

    def chance(self, n, d=10):
        return self.draw(st.integers(0, d - 1)) < n

    def seed(self):
        return self.draw(st.integers(0, 2**31 - 1))

    # -- helpers for evaluation
    def interp(self):
        p = Program(self.name, self.params, self.attrs, [], [], [], self.opset, self.helpers)
        it = Interp(p)
        it.attrs = dict(self.attr_vals)
        return it

    def try_eval(self, e, env=None):
        try:
            with np.errstate(all="ignore"):
                v = self.interp().ev(e, env if env is not None else self.env)
            if isinstance(v, tuple) and v and isinstance(v[0], str):
                v = Interp.default_tensor(v[1])
            return v
        except (InterpError, KeyError, ValueError, TypeError, IndexError, ZeroDivisionError, OverflowError):
            return None

    # -- program skeleton
    def make_params(self):
        n = self.draw(st.integers(1, self.max_params))
        for i in range(n):
            dt = self.pick(["FLOAT", "FLOAT", "FLOAT", "DOUBLE", "INT64", "INT64", "INT32", "BOOL"]) if i else self.pick(["FLOAT", "FLOAT", "INT64", "DOUBLE"])
            rank = self.pick([0, 1, 1, 2, 2, 3])
            if i == 0 and getattr(self, "force_first", None):
                dt, rank = self.force_first
            shape = tuple(self.pick([1, 2, 3, 2, 0 if self.chance(1, 12) else 3]) for _ in range(rank))
            if i and self.chance(4) and self.params:
                # same shape as first param so that binary ops line up
                shape = self.env[self.params[0][0]].shape
                rank = len(shape)
            name = ["x", "k", "m"][i]
            arr = modelgen.make_array(self.seed(), DT[dt], shape, self.pick(["mixed", "edge", "smallint"]))
            self.params.append((name, dt, rank))
            self.env[name] = arr
        if self.allow_attrs:
            for j in range(self.draw(st.integers(0, 2))):
                kind = self.pick(["float", "int", "int", "bool"])
                default = None
                if self.chance(5):
                    default = {"float": self.pick([0.5, 2.0, -1.0]), "int": self.pick([0, 1, 2, 3]), "bool": self.pick([True, False])}[kind]
                name = ["alpha", "n"][j] if kind != "bool" else ["flag", "flag2"][j]
                val = {"float": self.pick([0.25, 1.5, -2.0, 0.0]), "int": self.pick([0, 1, 2, 3]), "bool": self.pick([True, False])}[kind]
                self.attrs.append((name, kind, default))
                self.attr_vals[name] = val
                self.feats.add("attr:" + kind + (":default" if default is not None else ":required"))
            self.attrs.sort(key=lambda a: a[2] is not None)  # Python: parameters without default first

    # -- expressions
    def vars_like(self, arr=None, pred=None, env=None):
        env = env if env is not None else self.env
        out = []
        for n, v in env.items():
            if not isinstance(v, np.ndarray):
                continue
            if arr is not None and (v.dtype != arr.dtype or v.shape != arr.shape):
                continue
            if pred is not None and not pred(v):
                continue
            out.append(n)
        return out

    def literal_for(self, dtype, nonzero=False):
        if dtype == np.bool_:
            return self.pick([True, False])
        if dtype.kind in "iu":
            return self.pick([1, 2, 3, -1, -2] if nonzero else [0, 1, 2, 3, -1, -2, 7])
        # float literals in a float context; int literals also allowed (promoted)
        return self.pick([1, 2, 0.5, -1.5, 2.0, 3] if nonzero else [0, 1, 2, 0.5, -1.5, 2.0, 0.0, 3, 1e-3])

    def gen_like(self, arr, env, depth=0):
        """Expression with the dtype and shape of arr (shape-preserving construction).  Returns Expr or None."""
        same = self.vars_like(arr, env=env)
        if not same:
            return None
        base = Var(self.pick(same))
        dt = arr.dtype
        kind = self.pick(["var", "un", "binlit", "binlit", "binvar", "call1", "where", "attr", "sub", "clip", "nested"]) if depth < 2 else self.pick(["var", "binlit"])
        if dt == np.bool_:
            kind = self.pick(["var", "not", "logic"])
            if kind == "not":
                return Un("not", base)
            if kind == "logic" and len(same) >= 1:
                self.uses_op = True
                return Call(self.pick(["And", "Or", "Xor"]), [base, Var(self.pick(same))], {})
            return base
        if kind == "var":
            return base
        if kind == "un":
            return Un("-", base)
        if kind == "binlit":
            op = self.pick(["+", "-", "*", "/", "%", "**"] if dt.kind == "f" else ["+", "-", "*", "/", "%"])
            if op == "**":
                self.feats.add("literal:promoted")
                return Bin("**", Bin("*", base, base) if self.chance(3) else Call("Abs", [base], {}), Lit(self.pick([2, 0.5, 1, 3])))
            if op in ("/", "%"):
                lit = self.literal_for(dt, nonzero=True)
                if op == "%" and dt.kind == "f":
                    if isinstance(lit, int) and self.chance(3):
                        self.feats.add("mod:float_tensor_nonfloat_literal")  # `X % 2` with a floating-point X
                        lit = abs(lit)
                    else:
                        lit = float(abs(lit)) or 2.0
                self.feats.add("literal:promoted")
                return Bin(op, base, Lit(lit))
            lit = self.literal_for(dt)
            if dt.kind in "iu" and isinstance(lit, float):
                lit = int(lit)
            self.feats.add("literal:promoted")
            return Bin(op, base, Lit(lit)) if self.chance(6) else Bin(op, Lit(lit), base)
        if kind == "binvar":
            other = Var(self.pick(same))
            op = self.pick(["+", "-", "*"])
            if dt.kind == "f" and self.chance(1):
                op = "%"  # `X % Y` on two floating-point tensors
                self.feats.add("mod:float_tensor_tensor")
            return Bin(op, base, other)
        if kind == "call1":
            self.uses_op = True
            ops = UNARY_F if dt.kind == "f" else UNARY_I
            op = self.pick(ops)
            if dt == np.float64 and op in ("Erf", "Softplus"):
                op = "Abs"
            if op == "Neg":
                return Un("-", base)
            return Call(op, [base], {})
        if kind == "clip":
            self.uses_op = True
            lo = self.pick([None, -1, 0, 0.5 if dt.kind == "f" else 1])
            hi = self.pick([None, 1, 6, 2.5 if dt.kind == "f" else 3])
            args = [base, None if lo is None else Lit(lo), None if hi is None else Lit(hi)]
            while args and args[-1] is None:
                args.pop()
            self.feats.add("literal:promoted")
            return Call("Clip", args, {})
        if kind == "where":
            self.uses_op = True
            other = Lit(self.literal_for(dt)) if self.chance(5) else Var(self.pick(same))
            cond = Bin(self.pick(list(CMPOPS)), base, Lit(self.literal_for(dt)))
            if isinstance(other, Lit) and dt.kind in "iu" and isinstance(other.value, float):
                other = Lit(int(other.value))
            self.feats.add("literal:promoted")
            return Call("Where", [cond, base, other], {})
        if kind == "attr":
            cands = [(n, k) for n, k, _ in self.attrs if k in ("float", "int")]
            if cands and self.depth_ok_for_attr():
                n, k = self.pick(cands)
                if k == "float" and dt.kind != "f":
                    return base
                self.feats.add("attr:promoted")
                return Bin(self.pick(["+", "*", "-"]), base, AttrRef(n)) if self.chance(6) else Bin(self.pick(["+", "*"]), AttrRef(n), base)
            return base
        if kind == "sub":
            hs = [h for h in self.helpers if h.params[0][1] == NAME_OF[dt] and h.params[0][2] == arr.ndim and len(h.params) == 1 and len(h.ret_types) == 1
                  and h.ret_types[0] == (NAME_OF[dt], arr.ndim) and h.shape_preserving]
            if hs:
                h = self.pick(hs)
                attrs = {}
                for n, k, d in h.attrs:
                    if d is None or self.chance(5):
                        attrs[n] = {"float": self.pick([0.5, 2.0]), "int": self.pick([1, 2]), "bool": True}[k]
                self.feats.add("subcall")
                return SubCall(h.name, [base], attrs)
            return base
        if kind == "nested":
            inner = self.gen_like(arr, env, depth + 1)
            if inner is None:
                return base
            return Bin(self.pick(["+", "*", "-"]), inner, base)
        return base

    def depth_ok_for_attr(self):
        return True

    def gen_any(self, env):
        """An arbitrary (possibly shape-changing) expression over env: (expr, n_out)."""
        names = [n for n, v in env.items() if isinstance(v, np.ndarray)]
        if not names:
            return None, 0  # an environment without tensors (all names re-bound to sequences / Python values)
        n = self.pick(names)
        v = env[n]
        x = Var(n)
        kind = self.pick(["like", "like", "reduce", "transpose", "concat", "cast", "shape", "matmul", "split", "topk", "unsq", "reshape", "gather", "cmp", "cumsum", "softmax", "minmax", "castlike",
                          "where_lits", "pow_lit", "subscript", "subscript"])
        self.uses_op = True
        if kind == "like" or v.dtype == np.bool_:
            e = self.gen_like(v, env)
            return e, 1
        if kind == "reduce":
            op = self.pick(["ReduceSum", "ReduceMax", "ReduceMin", "ReduceMean" if v.dtype.kind == "f" else "ReduceSum"])
            attrs = {"keepdims": self.pick([0, 1])}
            if v.ndim and self.chance(5):
                ax = self.draw(st.integers(-v.ndim, v.ndim - 1))
                if self.opset >= 18 or op == "ReduceSum":
                    self.feats.add("literal:promoted")
                    return Call(op, [x, Lit([ax])], attrs), 1
                attrs["axes"] = [ax]
            return Call(op, [x], attrs), 1
        if kind == "transpose" and v.ndim >= 2:
            perm = list(self.draw(st.permutations(list(range(v.ndim)))))
            return Call("Transpose", [x], {"perm": perm}), 1
        if kind == "concat" and v.ndim >= 1:
            others = [m for m in names if env[m].dtype == v.dtype and env[m].ndim == v.ndim and env[m].shape[1:] == v.shape[1:]]
            return Call("Concat", [x, Var(self.pick(others))], {"axis": 0}), 1
        if kind == "cast":
            to = self.pick(["FLOAT", "INT64", "DOUBLE", "INT32", "BOOL"])
            if v.dtype.kind == "f" and DT[to].kind in "iu" and v.size and (not np.all(np.isfinite(v)) or np.abs(v).max() > 1e6):
                return x, 1
            return Call("Cast", [x], {"to": ONNX_ENUM[to]}), 1
        if kind == "castlike":
            m = self.pick(names)
            if env[m].dtype == np.bool_ or (v.dtype.kind == "f" and env[m].dtype.kind in "iu"):
                return x, 1
            return Call("CastLike", [x, Var(m)], {}), 1
        if kind == "shape":
            return Call(self.pick(["Shape", "Size"]), [x], {}), 1
        if kind == "matmul" and v.dtype.kind == "f" and v.ndim == 2:
            return Call("MatMul", [x, Call("Transpose", [x], {"perm": [1, 0]})], {}), 1
        if kind == "split" and v.ndim >= 1 and v.shape[0] >= 2 and self.opset >= 18:
            return Call("Split", [x], {"num_outputs": 2, "axis": 0}, n_out=2), 2
        if kind == "topk" and v.ndim >= 1 and v.size >= 1 and v.dtype in (np.float32, np.int64) and v.size == np.unique(v).size:  # (ORT SIGFPE on zero-size TopK)
            self.feats.add("literal:promoted")
            return Call("TopK", [x, Lit([1])], {}, n_out=2), 2
        if kind == "unsq":
            self.feats.add("literal:promoted")
            return Call("Unsqueeze", [x, Lit([0])], {}), 1
        if kind == "reshape" and v.size:
            self.feats.add("literal:promoted")
            return Call("Reshape", [x, Lit([-1])], {}), 1
        if kind == "gather" and v.ndim >= 1 and v.shape[0] >= 1:
            self.feats.add("literal:promoted")
            return Call("Gather", [x, Lit(self.pick([0, -1, [0]]))], {"axis": 0}), 1
        if kind == "cmp":
            self.feats.add("literal:promoted")
            return Bin(self.pick(list(CMPOPS)), x, Lit(self.literal_for(v.dtype))), 1
        if kind == "subscript":
            idx = self.subscript_for(v)
            if idx is not None:
                self.feats.add("subscript")
                return Index(x, idx), 1
        if kind == "where_lits" and v.dtype != np.int32:
            # literals in positions WITHOUT a typed sibling (both branches of Where): typed by their Python type alone, no CastLike
            self.feats.add("literal:promoted")
            self.feats.add("literal:untyped_position")
            cond = Bin(self.pick(list(CMPOPS)), x, Lit(self.literal_for(v.dtype)))
            a, b = self.pick([(1.0, 0.0), (0.0, 1.0), (1, 0), (2.0, -1.0), (0.5, 0.0), (3, -1), (1.0, 2.0)])  # (no bool pair: onnxruntime has no Where kernel for bool)
            return Call("Where", [cond, Lit(a), Lit(b)], {}), 1
        if kind == "pow_lit" and v.dtype == np.float32 and v.size and np.abs(v).max() < 8:
            self.feats.add("literal:promoted")
            self.feats.add("literal:untyped_position")
            return Call("Pow", [Lit(self.pick([2.0, 0.5, 1.0, 3.0])), x], {}), 1
        if kind == "cumsum" and v.ndim >= 1 and v.dtype != np.int32:
            self.feats.add("literal:promoted")
            return Call("CumSum", [x, Lit(0)], {}), 1
        if kind == "softmax" and v.dtype.kind == "f" and v.ndim >= 1:
            return Call("Softmax", [x], {"axis": -1}), 1
        if kind == "minmax" and v.dtype != np.int32:
            self.feats.add("literal:promoted")
            return Call(self.pick(["Min", "Max"]), [x, Lit(self.literal_for(v.dtype))], {}), 1
        return self.gen_like(v, env), 1

    @staticmethod
    def subscript_ok(v):
        return v.ndim >= 1 and v.shape[0] >= 2

    def subscript_for(self, v):
        """Source text of a subscript of the documented forms that is in range for v (and leaves >= 1 element)."""
        if v.ndim == 0 or v.shape[0] < 2:
            return None
        forms = ["1:", ":1", "0", "-1", "1:2", ":-1"]
        if v.ndim >= 2 and v.shape[1] >= 2:
            forms += [":, 0", ":1, 0", ":1, :1", "0, 1:", "1:, -1"]
        return self.pick(forms)

    def scalar_cond(self, env):
        """A rank-0 BOOL expression."""
        names = [n for n, v in env.items() if isinstance(v, np.ndarray) and v.dtype != np.bool_ and v.dtype != np.int32]
        flags = [n for n, k, _ in self.attrs if k == "bool"]
        bools = [n for n, v in env.items() if isinstance(v, np.ndarray) and v.dtype == np.bool_ and v.ndim == 0]
        k = self.pick(["reduce", "reduce", "bool", "flag", "scalar"])
        if k == "flag" and flags:
            self.feats.add("attr:promoted")
            return AttrRef(self.pick(flags))
        if k == "bool" and bools:
            b = Var(self.pick(bools))
            return Un("not", b) if self.chance(3) else b
        scal = [n for n in names if env[n].ndim == 0]
        if k == "scalar" and scal:
            n = self.pick(scal)
            return Bin(self.pick(["<", ">", "<=", ">=", "==", "!="]), Var(n), Lit(self.literal_for(env[n].dtype)))
        if not names:
            return Lit(True) if False else None
        n = self.pick(names)
        self.uses_op = True
        self.feats.add("literal:promoted")
        red = Call(self.pick(["ReduceSum", "ReduceMax"]), [Var(n)], {"keepdims": 0})
        cmp_ = Bin(self.pick(["<", ">", "<=", ">="]), red, Lit(self.literal_for(env[n].dtype)))
        if self.chance(2):
            # `not (a < b)` is not `a >= b` when an operand is NaN (inputs of floating-point programs sometimes carry one)
            self.feats.add("cond:not_of_comparison")
            return Un("not", cmp_)
        return cmp_

    # -- statements
    def new_name(self, env):
        fresh = [v for v in VARS if v not in env and v not in self.frozen]
        if fresh and self.chance(6):
            return self.pick(fresh)
        cands = [v for v in VARS if v not in self.frozen]
        return self.pick(cands)

    def gen_assign(self, env, allow_new=True, must_preserve=()):
        """One assignment statement executed on env.  must_preserve: names whose dtype/shape must not change."""
        e, n_out = self.gen_any(env)
        if e is None:
            return None
        v = self.try_eval(e, env)
        if v is None:
            return None
        if n_out == 1:
            if not isinstance(v, np.ndarray):
                return None
            if v.dtype.kind == "f" and v.size and not np.all(np.isfinite(v)):
                return None
            t = self.new_name(env)
            if t in self.frozen:
                return None
            if t in env and (t in must_preserve or not allow_new) and (env[t].dtype != v.dtype or env[t].shape != v.shape):
                return None
            if not allow_new and t not in env:
                t = "tmp_" + str(self.depth)
            env[t] = v
            return Assign([t], e)
        ts = []
        for _ in range(n_out):
            t = self.new_name(env)
            if t in ts or t in self.frozen or t in must_preserve:
                return None
            ts.append(t)
        for t, x in zip(ts, v):
            env[t] = np.asarray(x)
        self.feats.add("tuple_assign")
        return Assign(ts, e)

    def gen_if(self, env, only_existing=False):
        cond = self.scalar_cond(env)
        if cond is None:
            return None
        cv = self.try_eval(cond, env)
        if cv is None or np.asarray(cv).size != 1:
            return None
        existing = [n for n, v in env.items() if isinstance(v, np.ndarray) and n not in self.frozen and not any(n == p[0] for p in self.params) or (isinstance(v, np.ndarray) and n not in self.frozen)]
        existing = [n for n in existing if n not in self.frozen]
        if not existing:
            return None
        then_env, else_env = dict(env), dict(env)
        then, orelse = [], []
        targets = []
        k = self.pick([1, 1, 2])
        for _ in range(k):
            mode = self.pick(["both_existing", "then_only", "else_only", "both_new"] if not only_existing else ["both_existing", "then_only", "else_only"])
            if mode == "both_new":
                fresh = [v for v in VARS if v not in env and v not in targets and v not in self.frozen]
                if not fresh:
                    continue
                t = self.pick(fresh)
                src = env[self.pick(existing)]
                e1, e2 = self.gen_like(src, then_env), self.gen_like(src, else_env)
            else:
                t = self.pick(existing)
                if t in targets:
                    continue
                src = env[t]
                e1 = self.gen_like(src, then_env) if mode != "else_only" else None
                e2 = self.gen_like(src, else_env) if mode != "then_only" else None
            ok = True
            for e, benv, stmts in ((e1, then_env, then), (e2, else_env, orelse)):
                if e is None:
                    continue
                v = self.try_eval(e, benv)
                if v is None or not isinstance(v, np.ndarray) or v.dtype != src.dtype or v.shape != src.shape or (v.dtype.kind == "f" and v.size and not np.all(np.isfinite(v))):
                    ok = False
                    break
                benv[t] = v
                stmts.append(Assign([t], e))
            if not ok:
                return None
            targets.append(t)
            self.feats.add("if:" + mode)
        if not then and not orelse:
            return None
        # optional temporaries / nesting inside branches
        self.depth += 1
        if self.depth < 2 and self.chance(3):
            inner = self.gen_compound(then_env, must_preserve=set(env), only_existing=True)
            if inner:
                then.append(inner)
                self.feats.add("nested")
        self.depth -= 1
        if not then:
            # python needs a body: swap so that the then-branch is the non-empty one
            cond = Un("not", cond) if not isinstance(cond, AttrRef) else cond
            if isinstance(cond, AttrRef):
                return None
            then, orelse = orelse, then
            then_env, else_env = else_env, then_env
            cv = not bool(np.asarray(cv).reshape(()))
        chosen = then_env if bool(np.asarray(cv).reshape(())) else else_env
        for t in set(then_env) | set(else_env):
            if t in then_env and t in else_env:
                env[t] = chosen[t]
        self.feats.add("if")
        return If(cond, then, orelse)

    def gen_loop_body(self, env, state, loop_var=None):
        body = []
        benv = dict(env)
        if loop_var:
            benv[loop_var] = np.asarray(0, dtype=np.int64)
        frozen_before = set(self.frozen)
        if loop_var:
            self.frozen.add(loop_var)
        try:
            sliced = None
            if self.chance(7):
                arrs = [n for n, v in benv.items() if isinstance(v, np.ndarray) and v.dtype in (np.float32, np.float64, np.int64) and n != loop_var and self.subscript_ok(v)]
                if arrs:
                    src = self.pick(arrs)
                    tmp = "tmp" + str(len(body)) + "s"
                    ie = Index(Var(src), self.subscript_for(benv[src]))
                    v0 = self.try_eval(ie, benv)
                    if v0 is not None and v0.size:
                        benv[tmp] = v0
                        body.append(Assign([tmp], ie))
                        sliced = tmp
                        self.feats.add("subscript:in_loop")
                        self.uses_op = True
            for s in state:
                e = self.gen_like(env[s], benv)
                if sliced and e is not None and benv[sliced].dtype == env[s].dtype:
                    e = Bin("+", e, Call("ReduceSum", [Var(sliced)], {"keepdims": 0}))
                    sliced = None
                if loop_var and env[s].dtype.kind in "fi" and env[s].dtype != np.int32 and self.chance(4):
                    self.uses_op = True
                    e = Bin("+", e or Var(s), Call("Cast", [Var(loop_var)], {"to": ONNX_ENUM[NAME_OF[env[s].dtype]]}))
                    self.feats.add("loop:uses_iter")
                if e is None:
                    return None
                v = self.try_eval(e, benv)
                if v is None or v.dtype != env[s].dtype or v.shape != env[s].shape or (v.dtype.kind == "f" and v.size and not np.all(np.isfinite(v))):
                    return None
                # a temporary sometimes (local variable of the body)
                if self.chance(3):
                    tmp = "tmp" + str(len(body))
                    benv[tmp] = v
                    body.append(Assign([tmp], e))
                    e = Bin("+", Var(tmp), Lit(0)) if v.dtype != np.bool_ else Var(tmp)
                    self.feats.add("literal:promoted")
                benv[s] = v
                body.append(Assign([s], e))
            self.depth += 1
            if self.depth < 2 and self.chance(3):
                inner = self.gen_compound(benv, must_preserve=set(env) | {loop_var} if loop_var else set(env), only_existing=True)
                if inner:
                    body.append(inner)
                    self.feats.add("nested")
            self.depth -= 1
        finally:
            self.frozen = frozen_before
        return body, benv

    def gen_for(self, env):
        cands = [n for n, v in env.items() if isinstance(v, np.ndarray) and n not in self.frozen]
        if not cands:
            return None
        state = list(dict.fromkeys(self.pick(cands) for _ in range(self.pick([1, 1, 2]))))
        ints = [n for n, k, _ in self.attrs if k == "int"]
        scal = [n for n, v in env.items() if isinstance(v, np.ndarray) and v.dtype == np.int64 and v.ndim == 0 and 0 <= int(v) <= 4]
        bk = self.pick(["lit", "lit", "attr", "tensor"])
        if bk == "attr" and ints:
            bound = AttrRef(self.pick(ints))
            self.feats.add("attr:promoted")
        elif bk == "tensor" and scal:
            bound = Var(self.pick(scal))
            self.feats.add("loop:tensor_bound")
        else:
            bound = Lit(self.pick([0, 1, 2, 3]))
        loop_var = self.pick(["i", "j", "_"]) if self.depth == 0 else self.pick(["j", "p"])
        if loop_var in env or loop_var in self.frozen:
            return None
        r = self.gen_loop_body(env, state, loop_var if loop_var != "_" else "_")
        if r is None:
            return None
        body, benv = r
        break_on = None
        if self.chance(3):
            s0 = state[0]
            if env[s0].dtype != np.bool_ and env[s0].dtype != np.int32:
                self.uses_op = True
                c = Bin(self.pick([">", "<"]), Call("ReduceSum", [Var(s0)], {"keepdims": 0}), Lit(self.literal_for(env[s0].dtype)))
                body.append(Assign(["stop"], c))
                break_on = "stop"
                self.feats.add("loop:break")
                self.feats.add("literal:promoted")
        stmt = For(loop_var, bound, body, break_on)
        # execute on the sample
        try:
            it = self.interp()
            with np.errstate(all="ignore"):
                it.stmt(stmt, env)
        except (InterpError, KeyError, ValueError, TypeError, IndexError):
            return None
        for n in list(env):
            if n.startswith("tmp") or n in (loop_var, "stop"):
                env.pop(n, None)
        self.feats.add("for")
        return stmt

    def gen_while(self, env):
        cands = [n for n, v in env.items() if isinstance(v, np.ndarray) and n not in self.frozen and v.dtype != np.bool_]
        if not cands or "cnt" in env or "go" in env:
            return None
        state = [self.pick(cands)]
        self.uses_op = True
        pre = [Assign(["cnt"], Call("Constant", [], {"value_int": 0})), Assign(["go"], Bin("<", Var("cnt"), Lit(self.pick([0, 1, 2, 3]))))]
        limit = pre[1].expr.right.value
        it = self.interp()
        try:
            for s in pre:
                it.stmt(s, env)
        except (InterpError, KeyError, ValueError, TypeError):
            return None
        r = None
        s0 = state[0]
        partners = [n for n, v in env.items() if isinstance(v, np.ndarray) and n not in self.frozen and n not in (s0, "cnt", "go") and v.dtype == env[s0].dtype
                    and v.shape == env[s0].shape and v.dtype.kind == "f"]
        extra_pre = []
        if not partners and env[s0].dtype.kind == "f" and self.chance(5):
            nm = next((v for v in VARS if v not in env and v not in self.frozen), None)
            if nm is not None:
                st0 = Assign([nm], Bin("*", Var(s0), Lit(0.5)))
                try:
                    it.stmt(st0, env)
                    extra_pre, partners = [st0], [nm]
                except (InterpError, KeyError, ValueError, TypeError):
                    pass
        if partners and self.chance(6):
            # acc = acc + v at the top; inside an `if`, v is re-assigned (read again only by the NEXT iteration) together with acc
            pv = self.pick(partners)
            benv = dict(env)
            top = Assign([s0], Bin("+", Var(s0), Var(pv)))
            cond = Bin(self.pick(["<", ">"]), Call("ReduceSum", [Var(s0)], {"keepdims": 0}), Lit(self.pick([0.0, 1.0, -1.0, 2.0])))
            inner = If(cond, [Assign([pv], Bin("*", Var(pv), Lit(self.pick([0.5, 2.0, -1.0])))), Assign([s0], Bin("-", Var(s0), Lit(1.0)))], [])
            try:
                it.stmt(top, benv)
                it.stmt(inner, benv)
                r = ([top, inner], benv)
                self.feats.add("while:backedge_only_variable")
                self.feats.add("literal:promoted")
                self.uses_op = True
            except (InterpError, KeyError, ValueError, TypeError):
                r = None
        if r is None:
            r = self.gen_loop_body(env, state, None)
        if r is None:
            env.pop("cnt", None)
            env.pop("go", None)
            return None
        body, _ = r
        body.append(Assign(["cnt"], Bin("+", Var("cnt"), Lit(1))))
        cond2 = Bin("<", Var("cnt"), Lit(limit))
        if self.chance(4) and env[state[0]].dtype.kind == "f":
            # data-dependent extra exit: still terminates because the counter bound stays
            self.feats.add("while:data_cond")
            cond2 = Call("And", [cond2, Bin("<", Call("ReduceSum", [Call("Abs", [Var(state[0])], {})], {"keepdims": 0}), Lit(1000.0))], {})
        body.append(Assign(["go"], cond2))
        wbreak = None
        if self.chance(3) and env[state[0]].dtype not in (np.bool_, np.int32) and "stop" not in env:
            # a while loop that ALSO ends with `if stop: break`: it continues only while both conditions allow
            c = Bin(self.pick([">", "<"]), Call("ReduceSum", [Var(state[0])], {"keepdims": 0}), Lit(self.literal_for(env[state[0]].dtype)))
            body.append(Assign(["stop"], c))
            wbreak = "stop"
            self.feats.add("while:break")
        stmt = While("go", body, wbreak)
        try:
            with np.errstate(all="ignore"):
                it.stmt(stmt, env)
        except (InterpError, KeyError, ValueError, TypeError, IndexError):
            return None
        for n in list(env):
            if n.startswith("tmp") or (wbreak and n == "stop"):
                env.pop(n, None)
        self.feats.add("while")
        self.feats.add("literal:promoted")
        post = []
        if self.chance(4) and state[0] in env and env[state[0]].dtype in (np.float32, np.float64, np.int64) and isinstance(env.get("go"), np.ndarray):
            # the condition variable is an ordinary variable: its value AFTER the loop (False unless the loop ended through `break`) is read
            st_post = Assign([state[0]], Bin("+", Var(state[0]), Call("Cast", [Var("go")], {"to": ONNX_ENUM[NAME_OF[env[state[0]].dtype]]})))
            try:
                it.stmt(st_post, env)
                post = [st_post]
                self.feats.add("while:cond_read_after_loop")
            except (InterpError, KeyError, ValueError, TypeError):
                post = []
        return extra_pre + [pre[0], pre[1], stmt] + post

    def gen_nested_last_hit(self, env):
        """Depth-3 template (outer loop / inner loop with a literal or tensor bound / if):
               h = x * 0.0; a = x * c
               for i in range(n):
                   cand = x * Cast(i + 1)
                   for j in range(K):
                       if ReduceSum(cand) <cmp> Cast(j + 1) * lim:
                           h = cand + Cast(j)
                   a = a + h
           h is assigned only under a condition inside the INNER loop, read only AFTER the inner loop, and dead after the outer loop: whether
           the outer Loop carries h is decided by the may-/must-assign treatment of the inner loop in the liveness / exposed-uses analysis."""
        fl = [n for n, v in env.items() if isinstance(v, np.ndarray) and v.dtype in (np.float32, np.float64) and n not in self.frozen
              and not n.startswith("tmp") and v.size <= 64]
        if not fl or any(n in env or n in self.frozen for n in ("i", "j", "cand")):
            return None
        x = self.pick(fl)
        dt = env[x].dtype
        fresh = [v for v in VARS if v not in env and v not in self.frozen]
        if len(fresh) < 2:
            return None
        h, a = fresh[0], fresh[1]
        to = ONNX_ENUM[NAME_OF[dt]]
        self.uses_op = True
        pre = [Assign([h], Bin("*", Var(x), Lit(0.0))), Assign([a], Bin("*", Var(x), Lit(self.pick([0.0, 1.0, -1.0]))))]
        scal = [n for n, v in env.items() if isinstance(v, np.ndarray) and v.dtype == np.int64 and v.ndim == 0 and 2 <= int(v) <= 4]
        obound = Var(self.pick(scal)) if scal and self.chance(5) else Lit(self.pick([2, 3, 4]))
        ibound = Lit(self.pick([1, 2, 2, 3]))
        cand = Assign(["cand"], Bin("*", Var(x), Call("Cast", [Bin("+", Var("i"), Lit(1))], {"to": to})))
        # the threshold is placed between the sums that `cand` takes over the outer iterations, so that the condition flips on the way
        sx = float(np.sum(env[x].astype(np.float64)))
        n_out = int(env[obound.name]) if isinstance(obound, Var) else int(obound.value)
        mid = sx * (1 + n_out) / 2.0
        lim = float(np.float32(mid if np.isfinite(mid) else 1.0)) if self.chance(7) else float(self.pick([0.0, 1.0, -2.0, 4.0]))
        cmp_ = "<" if sx >= 0 else ">"
        if self.chance(3):
            cmp_ = self.pick(["<", ">"])
        cond = Bin(cmp_, Call("ReduceSum", [Var("cand")], {"keepdims": 0}), Bin("*", Call("Cast", [Bin("+", Var("j"), Lit(1))], {"to": to}), Lit(lim)))
        inner = For("j", ibound, [If(cond, [Assign([h], Bin("+", Var("cand"), Call("Cast", [Var("j")], {"to": to})))], [])])
        post = Assign([a], Bin("+", Var(a), Var(h)))
        outer = For("i", obound, [cand, inner, post])
        try:
            it = self.interp()
            with np.errstate(all="ignore"):
                for st_ in pre:
                    it.stmt(st_, env)
                it.stmt(outer, env)
        except (InterpError, KeyError, ValueError, TypeError, IndexError):
            return None
        if not isinstance(env.get(a), np.ndarray) or not np.all(np.isfinite(env[a])):
            return None
        for n in ("i", "j", "cand", h):  # h is dead after the loop nest by construction
            env.pop(n, None)
        self.feats |= {"for", "nested", "nested:depth3", "nested:conditional_assign_in_inner_loop", "literal:promoted", "loop:uses_iter"}
        return pre + [outer]

    def gen_overwrite_after_branch(self, env):
        """Template:  v = x * 1.0; w = x * 0.0
                      if c1: v = x + 1.0; w = x + 2.0
                      else:  v = x - 1.0; w = x - 2.0
                      if c2: v = x * 3.0            # no else: on the fall-through path v keeps the value from the first statement
                      u = v + w
        v is re-assigned in control flow together with another live variable and then overwritten, without being read, by an else-less
        `if`: whether the first statement still has to produce v is decided by the liveness of v across the fall-through of the second.
        The thresholds are placed around the sample's sum so that every combination of paths occurs over the input tuples."""
        fl = [n for n, v in env.items() if isinstance(v, np.ndarray) and v.dtype in (np.float32, np.float64) and n not in self.frozen
              and not n.startswith("tmp") and 1 <= v.size <= 64]
        fresh = [v for v in VARS if v not in env and v not in self.frozen]
        if not fl or len(fresh) < 3:
            return None
        x = self.pick(fl)
        v, w, u = fresh[0], fresh[1], fresh[2]
        self.uses_op = True
        sx = float(np.sum(env[x].astype(np.float64)))
        if not np.isfinite(sx):
            return None
        t1 = float(np.float32(sx + self.pick([-1.0, 1.0, -1.0])))
        t2 = float(np.float32(sx + self.pick([1.0, 1.0, -1.0])))  # (mostly false on the sample: the fall-through path)
        red = lambda: Call("ReduceSum", [Var(x)], {"keepdims": 0})  # noqa: E731
        first_is_loop = self.chance(3)
        pre = [Assign([v], Bin("*", Var(x), Lit(1.0))), Assign([w], Bin("*", Var(x), Lit(0.0)))]
        if first_is_loop:
            first = For("i", Lit(self.pick([1, 2, 3])), [Assign([v], Bin("+", Var(v), Lit(1.0))), Assign([w], Bin("+", Var(w), Var(x)))])
            if "i" in env or "i" in self.frozen:
                return None
        else:
            first = If(Bin(">", red(), Lit(t1)), [Assign([v], Bin("+", Var(x), Lit(1.0))), Assign([w], Bin("+", Var(x), Lit(2.0)))],
                       [Assign([v], Bin("-", Var(x), Lit(1.0))), Assign([w], Bin("-", Var(x), Lit(2.0)))])
        second = If(Bin(">", red(), Lit(t2)), [Assign([v], Bin("*", Var(x), Lit(3.0)))], [])
        last = Assign([u], Bin("+", Var(v), Var(w)))
        stmts = pre + [first, second, last]
        try:
            it = self.interp()
            with np.errstate(all="ignore"):
                for st_ in stmts:
                    it.stmt(st_, env)
        except (InterpError, KeyError, ValueError, TypeError, IndexError):
            return None
        if not isinstance(env.get(u), np.ndarray) or not np.all(np.isfinite(env[u])):
            return None
        env.pop("i", None)
        self.feats |= {"if", "if:then_only", "if:else_less_overwrite_after_branch", "literal:promoted"} | ({"for"} if first_is_loop else {"if:both_existing"})
        return stmts

    def gen_loop_bound_reassigned(self, env):
        """Template:  nb = op.Constant(value_int=k0); s = x * 1.0
                      if c: nb = op.Constant(value_int=k1); s = x + 1.0
                      for i in range(nb): s = s + 1.0
        The trip count is re-assigned in a branch just before the loop whose header is its only reader."""
        fl = [n for n, v in env.items() if isinstance(v, np.ndarray) and v.dtype in (np.float32, np.float64) and n not in self.frozen
              and not n.startswith("tmp") and 1 <= v.size <= 64]
        fresh = [v for v in VARS if v not in env and v not in self.frozen]
        if not fl or len(fresh) < 2 or "i" in env or "i" in self.frozen:
            return None
        x = self.pick(fl)
        nb, acc = fresh[0], fresh[1]
        self.uses_op = True
        sx = float(np.sum(env[x].astype(np.float64)))
        if not np.isfinite(sx):
            return None
        t = float(np.float32(sx + self.pick([-1.0, 1.0])))
        stmts = [Assign([nb], Call("Constant", [], {"value_int": self.pick([1, 2])})), Assign([acc], Bin("*", Var(x), Lit(1.0))),
                 If(Bin(">", Call("ReduceSum", [Var(x)], {"keepdims": 0}), Lit(t)),
                    [Assign([nb], Call("Constant", [], {"value_int": self.pick([3, 0, 4])})), Assign([acc], Bin("+", Var(x), Lit(1.0)))], []),
                 For("i", Var(nb), [Assign([acc], Bin("+", Var(acc), Lit(1.0)))])]
        try:
            it = self.interp()
            with np.errstate(all="ignore"):
                for st_ in stmts:
                    it.stmt(st_, env)
        except (InterpError, KeyError, ValueError, TypeError, IndexError):
            return None
        if not isinstance(env.get(acc), np.ndarray) or not np.all(np.isfinite(env[acc])):
            return None
        env.pop("i", None)
        self.feats |= {"if", "if:then_only", "for", "loop:tensor_bound", "loop:bound_reassigned_in_branch_before_loop", "literal:promoted"}
        return stmts

    def gen_compound(self, env, must_preserve=(), only_existing=False):
        """Generate a compound statement on a copy of env; commit only on success, and only names that Python AND the
        converter both keep in scope afterwards (pre-existing names, names assigned on every path)."""
        k = self.pick(["if", "if", "for", "while"])
        if self.depth == 0 and not only_existing and self.chance(1):
            k = "nest3"
        elif self.depth == 0 and not only_existing and self.chance(1):
            k = self.pick(["ovw", "lb"])
        saved = set(self.frozen)
        work = dict(env)
        feats_before = set(self.feats)
        try:
            if k == "nest3":
                r = self.gen_nested_last_hit(work)
            elif k == "ovw":
                r = self.gen_overwrite_after_branch(work)
            elif k == "lb":
                r = self.gen_loop_bound_reassigned(work)
            elif k == "if":
                r = self.gen_if(work, only_existing)
            elif k == "for":
                r = self.gen_for(work)
            elif self.depth == 0:
                r = self.gen_while(work)
            else:
                r = self.gen_if(work, only_existing)
        finally:
            self.frozen = saved
        if r is None:
            self.feats = feats_before
            return None
        keep_new = ({"cnt", "go"} | {t for st_ in r if isinstance(st_, Assign) for t in st_.targets if t in work}) if isinstance(r, list) else set()
        if isinstance(r, If):
            keep_new = _assigned_on_all_paths(r)
        for n in list(work):
            if n not in env and n not in keep_new:
                del work[n]
        env.clear()
        env.update(work)
        return r

    def gen_parallel_assign(self, env):
        """`a, b = b, a` / `a, b = b, a + b`: Python evaluates both right-hand sides before it binds either target."""
        names = [n for n, v in env.items() if isinstance(v, np.ndarray) and n not in self.frozen and v.dtype not in (np.bool_, np.int32)]
        pairs = [(a, b) for a in names for b in names if a < b and env[a].dtype == env[b].dtype and env[a].shape == env[b].shape]
        if not pairs:
            return None
        a, b = self.pick(pairs)
        second = Var(a) if self.chance(5) else Bin(self.pick(["+", "-"]), Var(a), Var(b))
        st_ = Assign([a, b], Tup([Var(b), second]))
        it = self.interp()
        trial = dict(env)
        try:
            with np.errstate(all="ignore"):
                it.stmt(st_, trial)
        except (InterpError, KeyError, ValueError, TypeError):
            return None
        if any(trial[n].dtype.kind == "f" and trial[n].size and not np.all(np.isfinite(trial[n])) for n in (a, b)):
            return None
        env.update({a: trial[a], b: trial[b]})
        self.feats.add("parallel_assign")
        return st_

    def gen_body(self, n_stmts):
        body = []
        for _ in range(n_stmts):
            k = self.pick(["assign", "assign", "assign", "compound", "compound", "parallel"])
            if k == "parallel":
                s = self.gen_parallel_assign(self.env) or self.gen_assign(self.env)
            elif k == "assign":
                s = self.gen_assign(self.env)
            else:
                s = self.gen_compound(self.env)
            if s is None:
                continue
            if isinstance(s, list):
                body += s
            else:
                body.append(s)
            if k == "compound":
                tg = [t for t in _assigned([s] if not isinstance(s, list) else s) if t in self.env and isinstance(self.env[t], np.ndarray)
                      and not t.startswith("tmp") and t not in ("cnt", "go", "stop")]
                self.compound_targets += tg
                if tg and self.chance(5):
                    # keep the control-flow result live: use it in a following statement
                    t = self.pick(tg)
                    e = self.gen_like(self.env[t], {t: self.env[t]})
                    v = self.try_eval(e) if e is not None else None
                    if v is not None and isinstance(v, np.ndarray) and (v.dtype.kind != "f" or np.all(np.isfinite(v))):
                        nm = self.pick(["r", "w", "z"])
                        if nm not in self.frozen:
                            self.env[nm] = v
                            body.append(Assign([nm], e))
                            self.compound_targets.append(nm)
        return body

    def finish(self, body):
        names = [n for n, v in self.env.items() if isinstance(v, np.ndarray) and v.dtype in NAME_OF]
        assigned = _assigned(body)
        pool = [n for n in names if n in assigned] or names
        k = self.pick([1, 1, 2, 3])
        live = [n for n in dict.fromkeys(reversed(self.compound_targets)) if n in names]
        rets = live[:k] if live and self.chance(8) else []
        while len(rets) < k:
            rets.append(self.pick(pool))
        if self.chance(2):
            rets.append(self.pick([p[0] for p in self.params]))  # returning an input directly
            self.feats.add("return:input")
        if len(rets) >= 2 and self.chance(2):
            rets[-1] = rets[0]  # duplicated output
            self.feats.add("return:duplicate")
        returns = [Var(n) for n in rets]
        ret_types = [(NAME_OF[self.env[n].dtype], self.env[n].ndim) for n in rets]
        p = Program(self.name, self.params, self.attrs, body, returns, ret_types, self.opset, self.helpers, needs_default_opset=not _has_call(body))
        p.shape_preserving = False
        return p


def _assigned_on_all_paths(s):
    if isinstance(s, If):
        def block(ss):
            out = set()
            for x in ss:
                if isinstance(x, Assign):
                    out.update(x.targets)
                elif isinstance(x, If):
                    out |= _assigned_on_all_paths(x)
            return out
        return block(s.then) & block(s.orelse)
    return set()


def _assigned(stmts):
    out = set()
    for s in stmts:
        if isinstance(s, Assign):
            out.update(s.targets)
        elif isinstance(s, If):
            out |= _assigned(s.then) | _assigned(s.orelse)
        elif isinstance(s, (For, While)):
            out |= _assigned(s.body)
    return out


def gen_helper(draw, idx, opset, dt=None, rank=None):
    """Straight-line, shape-preserving helper script function of one tensor parameter (+ optional attribute)."""
    g = SGen(draw, name=f"helper{idx}", allow_helpers=False, allow_attrs=False, max_params=1)
    g.opset = opset
    dt = dt or g.pick(["FLOAT", "FLOAT", "INT64", "DOUBLE"])
    rank = g.pick([0, 1, 2]) if rank is None else rank
    shape = tuple(g.pick([1, 2, 3]) for _ in range(rank))
    g.params = [("h", dt, rank)]
    g.env = {"h": modelgen.make_array(g.seed(), DT[dt], shape, "smallint")}
    if g.chance(6):
        kind = "float" if DT[dt].kind == "f" else "int"
        default = None if g.chance(5) else ({"float": 0.5, "int": 2}[kind])
        g.attrs = [("beta", kind, default)]
        g.attr_vals = {"beta": {"float": 1.5, "int": 3}[kind]}
    body = []
    cur = "h"
    for i in range(g.pick([1, 2, 3])):
        e = g.gen_like(g.env["h"], g.env)
        if e is None:
            continue
        if g.attrs and g.chance(5):
            e = Bin(g.pick(["+", "*"]), e, AttrRef("beta"))
        v = g.try_eval(e)
        if v is None or v.dtype != g.env["h"].dtype or v.shape != g.env["h"].shape or (v.dtype.kind == "f" and not np.all(np.isfinite(v))):
            continue
        t = f"q{i}"
        g.env[t] = v
        body.append(Assign([t], e))
        cur = t
    if cur == "h":
        g.uses_op = True
        body.append(Assign(["q"], Call("Identity", [Var("h")], {})))
        cur = "q"
    p = Program(g.name, g.params, g.attrs, body, [Var(cur)], [(dt, rank)], opset, [], needs_default_opset=not _has_call(body))
    p.shape_preserving = True
    p.feats = sorted(f for f in g.feats if f.startswith("mod:"))
    return p


def _NAN_SAFE(source):
    """A NaN is only put into the inputs of programs whose operators treat it alike in onnxruntime, onnx.reference and numpy (arithmetic,
    ReduceSum, ordering comparisons, control flow): Max/Min/Clip/Relu/ReduceMax/Mod/Cast/rounding/TopK kernels differ between the runtimes."""
    import re

    return not re.search(r"ReduceMax|ReduceMin|ReduceProd|\.Max\(|\.Min\(|Clip|Relu|TopK|ArgM|Sign|Round|Floor|Ceil|Cast|%|Mod\(|Pow|\*\*|Sqrt|Log|Exp|"
                         r"Softmax|Where|Equal|==|!=|\.Sum\(|\.Mean\(|Erf|Tanh|Sigmoid|Softplus|Elu|Selu|Celu|Abs|CumSum|Trilu|PRelu|Hard|Gelu|Mish|Shrink", source)


@dataclasses.dataclass
class GenProgram:
    prog: Program
    source: str
    sample_inputs: list
    attr_values: dict
    features: list

    def inputs(self, seed):
        rng = np.random.default_rng(seed)
        out = []
        for (_, dt, _), s in zip(self.prog.params, self.sample_inputs):
            a = modelgen.make_array(int(rng.integers(0, 2**31 - 1)), DT[dt], s.shape, ["mixed", "edge", "smallint"][int(rng.integers(0, 3))])
            if a.dtype.kind == "f" and a.size and ((seed // 7) % 4 == 3 or (getattr(self, "always_nan", False) and seed % 2 == 1)) and _NAN_SAFE(self.source):
                a = a.copy()
                a.flat[int(rng.integers(0, a.size))] = np.nan  # one input tuple in four carries a NaN in every floating-point tensor
            out.append(a)
        return out


@st.composite
def operator_programs(draw):
    """Operator matrix: one tensor parameter, 3-6 statements that each apply ONE Python operator to the parameter and a literal (on
    either side), all results returned.  The grammar of `programs` reaches every (operator, literal kind, operand dtype, side) only
    rarely; this strategy covers that product directly (literals with either sign, integer and floating-point tensors with values of
    either sign)."""
    g = SGen(draw, allow_helpers=False, allow_attrs=False, max_params=1)
    dt = g.pick(["INT64", "INT64", "INT32", "FLOAT", "DOUBLE"])
    g.force_first = (dt, g.pick([1, 1, 2, 0]))
    g.make_params()
    x = g.params[0][0]
    sample = [g.env[x].copy()]
    isf = DT[dt].kind == "f"
    body, rets = [], []
    for i in range(draw(st.integers(3, 6))):
        op = g.pick(["+", "-", "*", "/", "%", "%", "**"] + list(CMPOPS))
        if isf:
            lit = g.pick([1, 2, 3, -2, 0.5, -1.5, 2.0, 1e-3, 0])
        else:
            lit = g.pick([1, 2, 3, 5, 7, -1, -2, -3, -5, 0])
        left = g.chance(3)
        if op == "**":
            if not isf:
                continue
            e = Bin("**", Call("Abs", [Var(x)], {}), Lit(g.pick([2, 0.5, 1, 3])))
            g.uses_op = True
        elif op in ("/", "%"):
            if lit == 0:
                lit = 3
            if op == "%" and isf:
                if isinstance(lit, int):
                    g.feats.add("mod:float_tensor_nonfloat_literal")
                lit = abs(lit)
            e = Bin(op, Var(x), Lit(lit))
        else:
            e = Bin(op, Lit(lit), Var(x)) if left else Bin(op, Var(x), Lit(lit))
        v = g.try_eval(e)
        if v is None or not isinstance(v, np.ndarray) or v.dtype not in NAME_OF:
            continue
        t = f"o{i}"
        g.env[t] = v
        body.append(Assign([t], e))
        rets.append(t)
    if not body:
        g.uses_op = True
        body = [Assign(["o"], Call("Identity", [Var(x)], {}))]
        g.env["o"] = g.env[x]
        rets = ["o"]
    g.feats.update({"literal:promoted", "operator_matrix"})
    ret_types = [(NAME_OF[g.env[n].dtype], g.env[n].ndim) for n in rets]
    p = Program(g.name, g.params, g.attrs, body, [Var(n) for n in rets], ret_types, g.opset, [], needs_default_opset=not _has_call(body))
    p.shape_preserving = False
    return GenProgram(p, program_src(p), sample, {}, sorted(g.feats))


@st.composite
def nan_compare_programs(draw):
    """`not (a < b)`, `a >= b`, ... on scalar sums of the floating-point parameter select a branch; only NaN-transparent operators are
    used (arithmetic, ReduceSum, ordering comparisons), so that a NaN in the input means the same in every runtime and in numpy:
    every ordering comparison with NaN is False, hence `not (nan < y)` is True although `nan >= y` is False."""
    g = SGen(draw, allow_helpers=False, allow_attrs=False, max_params=1)
    dt = g.pick(["FLOAT", "FLOAT", "DOUBLE"])
    g.force_first = (dt, g.pick([1, 1, 2]))
    g.make_params()
    x = g.params[0][0]
    sample = [g.env[x].copy()]
    g.uses_op = True
    red = Call("ReduceSum", [Var(x)], {"keepdims": 0})
    body, rets = [], []
    for i in range(draw(st.integers(1, 3))):
        cmp_ = Bin(g.pick(["<", ">", "<=", ">="]), red, Lit(g.pick([0.0, 1.0, -2.0, 100.0])))
        if g.chance(6):
            cmp_ = Un("not", cmp_)
        t = f"r{i}"
        stmt = If(cmp_, [Assign([t], Bin("+", Var(x), Lit(1.0)))], [Assign([t], Bin("-", Var(x), Lit(1.0)))])
        try:
            g.interp().stmt(stmt, g.env)
        except Exception:  # noqa: BLE001
            continue
        body.append(stmt)
        rets.append(t)
    if not body:
        body = [Assign(["r"], Call("Identity", [Var(x)], {}))]
        g.env["r"] = g.env[x]
        rets = ["r"]
    g.feats.update({"literal:promoted", "if", "if:both_new", "nan_compare", "cond:not_of_comparison"})
    ret_types = [(NAME_OF[g.env[n].dtype], g.env[n].ndim) for n in rets]
    p = Program(g.name, g.params, g.attrs, body, [Var(n) for n in rets], ret_types, g.opset, [], needs_default_opset=False)
    gp = GenProgram(p, program_src(p), sample, {}, sorted(g.feats))
    gp.always_nan = True
    return gp


@st.composite
def programs(draw, max_stmts=7, main_attrs=True, multicall_one_in=6, operator_matrix_one_in=0):
    if operator_matrix_one_in and draw(st.integers(0, operator_matrix_one_in - 1)) == 0:
        return draw(operator_programs()) if draw(st.integers(0, 3)) else draw(nan_compare_programs())
    g = SGen(draw, allow_attrs=main_attrs)
    multicall = draw(st.integers(0, multicall_one_in - 1)) == 0
    if multicall:
        # one script calling SEVERAL different script functions directly (order of functions / opset imports in to_model_proto)
        dt, rank = g.pick(["FLOAT", "FLOAT", "INT64", "DOUBLE"]), g.pick([0, 1, 2])
        for i in range(draw(st.integers(2, 4))):
            g.helpers.append(gen_helper(draw, i, g.opset, dt, rank))
        g.force_first = (dt, rank)
    else:
        for i in range(draw(st.integers(0, 2))):
            g.helpers.append(gen_helper(draw, i, g.opset))
    g.make_params()
    sample = [g.env[p[0]].copy() for p in g.params]
    body = g.gen_body(draw(st.integers(1, max_stmts if not multicall else 3)))
    if multicall:
        x = g.params[0][0]
        arg = x
        for i, h in enumerate(draw(st.permutations(g.helpers))):
            attrs = {n: {"float": 0.5, "int": 2, "bool": True}[k] for n, k, d in h.attrs if d is None or g.chance(3)}
            e = SubCall(h.name, [Var(arg)], attrs)
            v = g.try_eval(e)
            if v is None:
                continue
            g.env[f"mc{i}"] = v
            body.append(Assign([f"mc{i}"], e))
            g.feats.add("subcall")
            arg = f"mc{i}" if g.chance(4) else x
        g.feats.add("multicall")
    if not body:
        s = g.gen_assign(g.env)
        if s is None:
            g.uses_op = True
            s = Assign(["y"], Call("Identity", [Var(g.params[0][0])], {}))
            g.env["y"] = g.env[g.params[0][0]]
        body = [s]
    p = g.finish(body)
    used = _used_helpers(p.body)
    p.helpers = [h for h in p.helpers if h.name in used]
    feats = set(g.feats)
    if p.helpers:
        feats.add("subcall")
        for h in p.helpers:
            feats.update(getattr(h, "feats", ()))
    return GenProgram(p, program_src(p), sample, dict(g.attr_vals), sorted(feats))


def _has_call(stmts):
    found = []

    def walk_e(e):
        if isinstance(e, Call):
            found.append(e)
        elif isinstance(e, Bin):
            walk_e(e.left)
            walk_e(e.right)
        elif isinstance(e, Un):
            walk_e(e.operand)
        elif isinstance(e, SubCall):
            for a in e.args:
                walk_e(a)
        if isinstance(e, Call):
            for a in e.args:
                walk_e(a)

    def walk(ss):
        for s in ss:
            if isinstance(s, Assign):
                walk_e(s.expr)
            elif isinstance(s, If):
                walk_e(s.cond)
                walk(s.then)
                walk(s.orelse)
            elif isinstance(s, (For, While)):
                walk(s.body)

    walk(stmts)
    return bool(found)


def _used_helpers(stmts):
    out = set()

    def walk_e(e):
        if isinstance(e, SubCall):
            out.add(e.fname)
            for a in e.args:
                walk_e(a)
        elif isinstance(e, Bin):
            walk_e(e.left)
            walk_e(e.right)
        elif isinstance(e, Un):
            walk_e(e.operand)
        elif isinstance(e, Call):
            for a in e.args:
                walk_e(a)
        elif isinstance(e, Tup):
            for a in e.items:
                walk_e(a)

    def walk(ss):
        for s in ss:
            if isinstance(s, Assign):
                walk_e(s.expr)
            elif isinstance(s, If):
                walk_e(s.cond)
                walk(s.then)
                walk(s.orelse)
            elif isinstance(s, (For, While)):
                walk(s.body)

    walk(stmts)
    return out


# ----------------------------------------------------------------------------- compiling source into script functions
_COUNTER = [0]


def compile_source(source, opset=18, extra_globals=None):
    """exec() the program text in a fresh module registered in sys.modules + linecache (inspect.getsource works).
    Returns the module.  Raises whatever the decorator raises."""
    import onnxscript
    from onnxscript import BOOL, DOUBLE, FLOAT, INT32, INT64, script

    _COUNTER[0] += 1
    modname = f"verif_script_{_COUNTER[0]}"
    fn = f"<verif:{modname}>"
    linecache.cache[fn] = (len(source), None, source.splitlines(True), fn)
    mod = types.ModuleType(modname)
    sys.modules[modname] = mod
    op = getattr(onnxscript, f"opset{opset}")
    mod.__dict__.update(script=script, FLOAT=FLOAT, DOUBLE=DOUBLE, INT64=INT64, INT32=INT32, BOOL=BOOL, op=op, onnxscript=onnxscript)
    # module-level names that coincide with parameter names of the generated functions (legal Python: the parameter hides the global)
    mod.__dict__.update(flag=True, flag2=False)
    if extra_globals:
        mod.__dict__.update(extra_globals)
    try:
        exec(compile(source, fn, "exec", dont_inherit=True), mod.__dict__)  # noqa: S102
    finally:
        # keep linecache entry (error messages need it) but drop the module to avoid unbounded growth
        if len(sys.modules) > 4000:
            for k in [k for k in sys.modules if k.startswith("verif_script_")][:2000]:
                sys.modules.pop(k, None)
    return mod


def release(mod):
    sys.modules.pop(mod.__name__, None)
    linecache.cache.pop(f"<verif:{mod.__name__}>", None)


def call_model(fn_proto, callee_protos, prog: Program, attr_values, opset):
    """A model whose graph is one node calling the FunctionProto, attributes supplied as node attributes."""
    ins = [helper.make_tensor_value_info(n, ONNX_ENUM[dt], [None] * r) for n, dt, r in prog.params]
    outs = [helper.make_tensor_value_info(f"out{i}", ONNX_ENUM[dt], [None] * r) for i, (dt, r) in enumerate(prog.ret_types)]
    attrs = {}
    for n, kind, _ in prog.attrs:
        if n in attr_values:
            v = attr_values[n]
            attrs[n] = float(v) if kind == "float" else int(v)
    node = helper.make_node(fn_proto.name, [n for n, _, _ in prog.params], [o.name for o in outs], domain=fn_proto.domain, **attrs)
    g = helper.make_graph([node], "call", ins, outs)
    domains = {fn_proto.domain} | {c.domain for c in callee_protos}
    opsets = [helper.make_opsetid("", opset)] + [helper.make_opsetid(d, 1) for d in sorted(domains)]
    return helper.make_model(g, opset_imports=opsets, functions=[fn_proto] + list(callee_protos), ir_version=modelgen.OPSET_IR.get(opset, 8))
