"""ONNX backend node/simple/converted models shipped with the installed onnx package, with their recorded
inputs and expected outputs, plus *lifting* transforms (DESIGN 2.2)."""
from __future__ import annotations

import functools
import glob
import os

import numpy as np
import onnx
from onnx import helper, numpy_helper

from vf.hyp import st

DATA = os.path.join(os.path.dirname(onnx.__file__), "backend", "test", "data")


@functools.lru_cache(maxsize=1)
def case_dirs():
    out = []
    for sub in ("node", "simple", "pytorch-converted", "pytorch-operator"):
        for d in sorted(glob.glob(os.path.join(DATA, sub, "*"))):
            if os.path.exists(os.path.join(d, "model.onnx")) and os.path.isdir(os.path.join(d, "test_data_set_0")):
                out.append(d)
    return out


def _load_pb(path, type_proto):
    with open(path, "rb") as f:
        data = f.read()
    if type_proto.HasField("tensor_type"):
        t = onnx.TensorProto()
        t.ParseFromString(data)
        return numpy_helper.to_array(t)
    return None  # sequences / optionals / maps: not used


@functools.lru_cache(maxsize=4096)
def load_case(d):
    """Returns (model, feeds, expected list) or None when the case uses non-tensor I/O or exotic types."""
    try:
        model = onnx.load(os.path.join(d, "model.onnx"))
        ds = os.path.join(d, "test_data_set_0")
        inits = {i.name for i in model.graph.initializer}
        inputs = [i for i in model.graph.input if i.name not in inits]
        feeds = {}
        for k, vi in enumerate(inputs):
            p = os.path.join(ds, f"input_{k}.pb")
            if not os.path.exists(p):
                return None
            a = _load_pb(p, vi.type)
            if a is None or a.dtype == object or a.dtype.kind in "OUSV":
                return None
            feeds[vi.name] = a
        expected = []
        for k, vi in enumerate(model.graph.output):
            p = os.path.join(ds, f"output_{k}.pb")
            if not os.path.exists(p):
                return None
            a = _load_pb(p, vi.type)
            if a is None or a.dtype == object or a.dtype.kind in "OUSV":
                return None
            expected.append(a)
        if any(n.domain not in ("", "ai.onnx") for n in model.graph.node):
            return None
        if model.ByteSize() > 200_000:
            return None
        return model, feeds, expected
    except Exception:  # noqa: BLE001
        return None


def _rename_values(model, prefix):
    """Prefix every value name in the main graph (not subgraph-local ones) - used when chaining."""
    return model


def lift(model, feeds, lifts, draw):
    """Apply lifting transforms.  Returns (model', feeds', applied)."""
    m = onnx.ModelProto()
    m.CopyFrom(model)
    feeds = dict(feeds)
    applied = []
    g = m.graph
    if "const_inputs" in lifts and feeds:
        names = list(feeds)
        k = draw(st.integers(1, len(names)))
        chosen = names[:k] if draw(st.booleans()) else names[-k:]
        how = draw(st.sampled_from(["node", "init"]))
        keep = [i for i in g.input if i.name not in chosen]
        moved = [i for i in g.input if i.name in chosen]
        if keep or True:
            del g.input[:]
            g.input.extend(keep)
            new_nodes = []
            for vi in moved:
                arr = feeds.pop(vi.name)
                if how == "node":
                    new_nodes.append(helper.make_node("Constant", [], [vi.name], value=numpy_helper.from_array(arr, vi.name + "_t")))
                else:
                    g.initializer.append(numpy_helper.from_array(arr, vi.name))
            if new_nodes:
                old = list(g.node)
                del g.node[:]
                g.node.extend(new_nodes + old)
            applied.append("const_inputs:" + how + (":all" if not keep else ":some"))
    if "function" in lifts and len(g.node) >= 1 and not any(a.type in (5, 10) for n in g.node for a in n.attribute) and not g.initializer:
        # wrap the whole body in a model-local function
        ins = [i.name for i in g.input]
        outs = [o.name for o in g.output]
        body_consts = [n for n in g.node]
        f = helper.make_function("verif.local", "Body", ins, [o + "_f" for o in outs],
                                 list(body_consts) + [helper.make_node("Identity", [o], [o + "_f"]) for o in outs],
                                 list(m.opset_import))
        call = helper.make_node("Body", ins, outs, domain="verif.local")
        del g.node[:]
        g.node.append(call)
        m.functions.append(f)
        m.opset_import.append(helper.make_opsetid("verif.local", 1))
        applied.append("function")
    if "if_wrap" in lifts and len(g.output) >= 1 and all(o.type.HasField("tensor_type") for o in g.output):
        cond_const = draw(st.booleans())
        val = draw(st.booleans())
        outs = list(g.output)
        inner_nodes = list(g.node)
        inner_inits = list(g.initializer)
        ren = {o.name: o.name + "_br" for o in outs}

        def branch(real):
            if real:
                nodes = [onnx.NodeProto() for _ in inner_nodes]
                for a, b in zip(nodes, inner_nodes):
                    a.CopyFrom(b)
                tail = [helper.make_node("Identity", [o.name], [ren[o.name]]) for o in outs]
                # the inner nodes keep their names; outputs are re-exported under new names
                return helper.make_graph(nodes + tail, "then" if val else "else", [], [_retype(o, ren[o.name]) for o in outs])
            nodes = []
            for o in outs:
                tt = o.type.tensor_type
                z = helper.make_node("Constant", [], [ren[o.name] + "_z"], value=helper.make_tensor("z", tt.elem_type, [1], [0]))
                nodes += [z, helper.make_node("Identity", [ren[o.name] + "_z"], [ren[o.name]])]
            return helper.make_graph(nodes, "dead", [], [_retype(o, ren[o.name], drop_shape=True) for o in outs])

        if all(o.type.tensor_type.elem_type in (1, 6, 7, 9, 10, 11) for o in outs):
            tb, eb = (branch(True), branch(False)) if val else (branch(False), branch(True))
            # dead branch has another shape: the If output type must then not promise a shape
            del g.node[:]
            del g.output[:]
            if cond_const:
                g.node.append(helper.make_node("Constant", [], ["verif_cond"], value=numpy_helper.from_array(np.asarray(val), "c")))
            else:
                g.input.append(helper.make_tensor_value_info("verif_cond", onnx.TensorProto.BOOL, []))
                feeds["verif_cond"] = np.asarray(val)
            g.node.append(helper.make_node("If", ["verif_cond"], [ren[o.name] for o in outs], then_branch=tb, else_branch=eb))
            g.output.extend([_retype(o, ren[o.name], drop_shape=True) for o in outs])
            del g.value_info[:]
            applied.append("if_wrap:" + ("const" if cond_const else "dynamic"))
    return m, feeds, applied


def _retype(vi, name, drop_shape=False):
    v = onnx.ValueInfoProto()
    v.CopyFrom(vi)
    v.name = name
    if drop_shape and v.type.HasField("tensor_type"):
        rank = len(v.type.tensor_type.shape.dim) if v.type.tensor_type.HasField("shape") else None
        v.type.tensor_type.ClearField("shape")
        if rank is not None:
            for _ in range(rank):
                v.type.tensor_type.shape.dim.add()
            if rank == 0:
                v.type.tensor_type.shape.SetInParent()
    return v


@st.composite
def lifted_cases(draw):
    dirs = case_dirs()
    d = dirs[draw(st.integers(0, len(dirs) - 1))]
    c = load_case(d)
    if c is None:
        return None
    model, feeds, expected = c
    lifts = draw(st.sets(st.sampled_from(["const_inputs", "const_inputs", "function", "if_wrap"]), min_size=0, max_size=2))
    try:
        m, f, applied = lift(model, feeds, lifts, draw)
        onnx.checker.check_model(m)
    except Exception:  # noqa: BLE001
        return None
    return m, f, expected, os.path.basename(d), applied
