"""Independent structural walker for Model/Function/Graph protos (DESIGN 1.5).

Pure protobuf traversal; no onnxscript / onnx_ir code.  Returns a list of (kind, message).
"""
from __future__ import annotations

import onnx
import onnx.checker
import onnx.defs

GRAPH, GRAPHS = onnx.AttributeProto.GRAPH, onnx.AttributeProto.GRAPHS


def _subgraphs(node):
    for a in node.attribute:
        if a.type == GRAPH:
            yield a.name, a.g
        elif a.type == GRAPHS:
            for i, g in enumerate(a.graphs):
                yield f"{a.name}[{i}]", g


def walk_graph(g, outer_defined, problems, path, opts, all_names, used_domains):
    """outer_defined: set of names visible from enclosing scopes at this point."""
    local = set()

    def define(name, what):
        if name == "":
            return
        if name in local:
            problems.append(("ssa", f"{path}: '{name}' defined more than once ({what})"))
        elif name in outer_defined and not opts.get("allow_shadow", False):
            problems.append(("shadow", f"{path}: '{name}' redefines an outer-scope name ({what})"))
        if name in all_names and name not in local and opts.get("global_unique", False) and name not in outer_defined:
            problems.append(("ssa-global", f"{path}: '{name}' also defined in another (sub)graph"))
        local.add(name)
        all_names.add(name)

    inputs = [i.name for i in g.input]
    for n in inputs:
        define(n, "input")
    input_set = set(inputs)
    for init in g.initializer:
        if init.name in input_set:
            continue  # overridable default: same name on purpose
        define(init.name, "initializer")
    for init in g.sparse_initializer:
        define(init.values.name, "sparse initializer")
    produced_here = set()
    for idx, node in enumerate(g.node):
        used_domains.add(node.domain or "")
        for x in node.input:
            if x and x not in local and x not in outer_defined:
                problems.append(("use-before-def", f"{path}: node#{idx} {node.op_type} uses '{x}' before definition / not in scope"))
        for an, sg in _subgraphs(node):
            walk_graph(sg, outer_defined | local, problems, f"{path}/{node.op_type}#{idx}.{an}", opts, all_names, used_domains)
        for y in node.output:
            define(y, f"output of {node.op_type}#{idx}")
            if y:
                produced_here.add(y)
    outs = [o.name for o in g.output]
    if len(set(outs)) != len(outs):
        problems.append(("dup-output", f"{path}: graph outputs not distinct: {outs}"))
    for o in outs:
        if o not in local and o not in outer_defined:
            problems.append(("undefined-output", f"{path}: graph output '{o}' is not defined"))
        if opts.get("outputs_produced_inside") and o not in produced_here:
            problems.append(("output-not-produced-inside", f"{path}: output '{o}' is not produced by a node of this graph"))
        if opts.get("no_input_as_output") and o in input_set:
            problems.append(("input-as-output", f"{path}: graph input '{o}' returned directly"))
    return local


def _check_schemas(nodes, imports, local_funcs, problems, path):
    for idx, node in enumerate(nodes):
        dom = node.domain or ""
        if (dom, node.op_type) in local_funcs or (dom, node.op_type, node.overload) in local_funcs:
            pass
        elif dom not in imports:
            problems.append(("missing-opset-import", f"{path}: node#{idx} {dom}::{node.op_type} has no opset import"))
        else:
            try:
                onnx.defs.get_schema(node.op_type, imports[dom], dom)
            except Exception:  # noqa: BLE001
                if dom in ("", "ai.onnx.ml", "ai.onnx.preview.training", "ai.onnx.training"):
                    problems.append(("no-schema", f"{path}: {dom}::{node.op_type} has no schema at version {imports[dom]}"))
        for _, sg in _subgraphs(node):
            _check_schemas(sg.node, imports, local_funcs, problems, path + "/" + node.op_type)


def _imports(opset_import, problems, path):
    imports = {}
    for oi in opset_import:
        d = oi.domain or ""
        if d in imports:
            problems.append(("dup-opset-import", f"{path}: domain '{d}' imported more than once ({imports[d]}, {oi.version})"))
        imports[d] = oi.version
    return imports


def check_model(model: onnx.ModelProto, *, strict=True, run_checker=True, **opts):
    problems = []
    imports = _imports(model.opset_import, problems, "model")
    local_funcs = set()
    for f in model.functions:
        local_funcs.add((f.domain, f.name))
        local_funcs.add((f.domain, f.name, f.overload))
    used = set()
    walk_graph(model.graph, set(), problems, "graph", opts, set(), used)
    _check_schemas(model.graph.node, imports, local_funcs, problems, "graph")
    for f in model.functions:
        problems.extend(check_function(f, local_funcs=local_funcs, run_checker=False, **opts))
    # every still-referenced local function exists: covered by schema resolution above
    if run_checker and not problems:
        try:
            typed = all(i.type.HasField("tensor_type") and i.type.tensor_type.HasField("shape") for i in
                        list(model.graph.input) + list(model.graph.output)) if strict else False
            onnx.checker.check_model(model, full_check=bool(typed))
        except Exception as e:  # noqa: BLE001
            problems.append(("checker", f"{type(e).__name__}: {str(e)[:400]}"))
    return problems


def check_function(f: onnx.FunctionProto, *, local_funcs=(), run_checker=True, **opts):
    problems = []
    path = f"function {f.domain}::{f.name}"
    imports = _imports(f.opset_import, problems, path)
    local = set()
    all_names = set()
    for n in f.input:
        if n in local:
            problems.append(("ssa", f"{path}: input '{n}' repeated"))
        local.add(n)
    for idx, node in enumerate(f.node):
        for x in node.input:
            if x and x not in local:
                problems.append(("use-before-def", f"{path}: node#{idx} {node.op_type} uses '{x}' before definition"))
        for an, sg in _subgraphs(node):
            walk_graph(sg, set(local), problems, f"{path}/{node.op_type}#{idx}.{an}", opts, all_names, set())
        for y in node.output:
            if y:
                if y in local:
                    problems.append(("ssa", f"{path}: '{y}' defined more than once"))
                if y in all_names:
                    problems.append(("ssa-global", f"{path}: '{y}' also defined in a subgraph"))
                local.add(y)
    outs = list(f.output)
    if len(set(outs)) != len(outs):
        problems.append(("dup-output", f"{path}: outputs not distinct {outs}"))
    for o in outs:
        if o not in local:
            problems.append(("undefined-output", f"{path}: output '{o}' undefined"))
        if opts.get("no_input_as_output") and o in set(f.input):
            problems.append(("input-as-output", f"{path}: input '{o}' returned directly"))
    _check_schemas(f.node, imports, set(local_funcs) | {(f.domain, f.name)}, problems, path)
    if run_checker and not problems:
        try:
            onnx.checker.check_function(f)
        except Exception as e:  # noqa: BLE001
            problems.append(("checker", f"{type(e).__name__}: {str(e)[:400]}"))
    return problems


def signature(model: onnx.ModelProto):
    """(inputs, outputs) as lists of (name, elem_type, dims) with dims None|int|str per entry."""

    def vi(v):
        t = v.type
        if t.HasField("tensor_type"):
            tt = t.tensor_type
            dims = None
            if tt.HasField("shape"):
                dims = []
                for d in tt.shape.dim:
                    if d.HasField("dim_value"):
                        dims.append(d.dim_value)
                    elif d.HasField("dim_param"):
                        dims.append(d.dim_param)
                    else:
                        dims.append(None)
            return (v.name, tt.elem_type, dims)
        return (v.name, t.WhichOneof("value"), None)

    return [vi(v) for v in model.graph.input], [vi(v) for v in model.graph.output]
