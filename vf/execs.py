"""Run a ModelProto on onnxruntime (optimisations off, one thread) and on onnx.reference.

Neither runtime contains onnxscript code.  Results are ("ok", [arrays]) or ("err", message).
"""
from __future__ import annotations

import os

import numpy as np
import onnx

_ort = None


def _get_ort():
    global _ort
    if _ort is None:
        import onnxruntime as ort

        ort.set_default_logger_severity(4)
        _ort = ort
    return _ort


def _to_bytes(model):
    if isinstance(model, (bytes, bytearray)):
        return bytes(model)
    return model.SerializeToString()


class _Server:
    """One ORT child process per check worker (started lazily, restarted after a crash)."""

    proc = None
    crashes = 0
    timeouts = 0
    counter = 0
    pending_drops: list = []  # sessions released by the garbage collector; flushed at the next safe point

    @classmethod
    def start(cls):
        import subprocess
        import sys

        cls.proc = subprocess.Popen([sys.executable, "-W", "ignore", "-m", "vf.ort_server"], stdin=subprocess.PIPE, stdout=subprocess.PIPE,
                                    stderr=subprocess.DEVNULL, cwd=os.environ.get("VERIF_HOME") or os.path.dirname(os.path.dirname(os.path.abspath(__file__))))

    @classmethod
    def call(cls, msg, expect_reply=True):
        import pickle

        if cls.proc is None or cls.proc.poll() is not None:
            cls.start()
            cls.pending_drops.clear()
        try:
            while cls.pending_drops:  # never write from __del__: it may run in the middle of another request
                pickle.dump(("drop", cls.pending_drops.pop()), cls.proc.stdin, protocol=pickle.HIGHEST_PROTOCOL)
            pickle.dump(msg, cls.proc.stdin, protocol=pickle.HIGHEST_PROTOCOL)
            cls.proc.stdin.flush()
            if not expect_reply:
                return None
            # a model whose shapes are computed from data can ask the runtime for a gigantic tensor: bound the wait, then restart
            import select

            limit = float(os.environ.get("VERIF_ORT_TIMEOUT", "15"))
            if not select.select([cls.proc.stdout], [], [], limit)[0]:
                cls.timeouts += 1
                cls._kill()
                return ("crash", f"timeout: onnxruntime did not answer within {limit:.0f}s (inconclusive)")
            return pickle.load(cls.proc.stdout)
        except (EOFError, BrokenPipeError, pickle.UnpicklingError, OSError):
            cls.crashes += 1
            cls._kill()
            return ("crash", "onnxruntime process died (signal) on this model/input")
        except BaseException:
            # e.g. the per-case watchdog fired in the middle of a request: the reply would be read by the NEXT request.
            # Kill the server so that request/response can never get out of step.
            cls._kill()
            raise

    @classmethod
    def _kill(cls):
        try:
            if cls.proc is not None:
                cls.proc.kill()
                cls.proc.wait(timeout=5)
        except Exception:  # noqa: BLE001
            pass
        cls.proc = None


class RemoteSession:
    def __init__(self, model_bytes):
        _Server.counter += 1
        self.key = _Server.counter
        self.model_bytes = model_bytes
        r = _Server.call(("load", self.key, model_bytes))
        if r[0] != "ok":
            raise RuntimeError(r[1])

    def run(self, feeds):
        r = _Server.call(("run", self.key, feeds))
        if r[0] == "err" and r[1] == "session dropped":
            rr = _Server.call(("load", self.key, self.model_bytes))
            if rr[0] != "ok":
                return rr
            r = _Server.call(("run", self.key, feeds))
        return r

    def __del__(self):
        try:
            _Server.pending_drops.append(self.key)
        except Exception:  # noqa: BLE001
            pass


def ort_crashes():
    return _Server.crashes


def ort_session(model):
    if os.environ.get("VERIF_ORT_ISOLATE", "1") != "0":
        return RemoteSession(_to_bytes(model))
    ort = _get_ort()
    so = ort.SessionOptions()
    so.graph_optimization_level = ort.GraphOptimizationLevel.ORT_DISABLE_ALL
    so.intra_op_num_threads = 1
    so.inter_op_num_threads = 1
    so.log_severity_level = 4
    return ort.InferenceSession(_to_bytes(model), so, providers=["CPUExecutionProvider"])


def run_ort(model, feeds, session=None):
    try:
        sess = session or ort_session(model)
        if isinstance(sess, RemoteSession):
            r = sess.run(feeds)
            if r[0] == "ok":
                return ("ok", [_norm(o) for o in r[1]])
            return ("err", ("ORT-CRASH: " if r[0] == "crash" else "") + str(r[1]))
        names = {i.name for i in sess.get_inputs()} | {i.name for i in sess.get_overridable_initializers()}
        out = sess.run(None, {k: v for k, v in feeds.items() if k in names})
        return ("ok", [_norm(o) for o in out])
    except Exception as e:  # noqa: BLE001
        return ("err", f"{type(e).__name__}: {str(e)[:300]}")


def _norm(o):
    if isinstance(o, list):  # sequence output
        return [np.asarray(x) for x in o]
    if o is None:
        return None
    return np.asarray(o)


def ref_evaluator(model):
    from onnx.reference import ReferenceEvaluator

    if isinstance(model, (bytes, bytearray)):
        model = onnx.load_from_string(bytes(model))
    return ReferenceEvaluator(model)


def run_ref(model, feeds, evaluator=None, intermediate=False):
    try:
        ev = evaluator or ref_evaluator(model)
        names = set(ev.input_names)
        f = {k: v for k, v in feeds.items() if k in names}
        if intermediate:
            res = ev.run(None, f, intermediate=True)
            outs = [_norm(res[n]) for n in ev.output_names]
            return ("ok", outs, res)
        out = ev.run(None, f)
        return ("ok", [_norm(o) for o in out])
    except Exception as e:  # noqa: BLE001
        if intermediate:
            return ("err", f"{type(e).__name__}: {str(e)[:300]}", {})
        return ("err", f"{type(e).__name__}: {str(e)[:300]}")


def magnitude_scale(intermediates) -> float:
    """Largest finite magnitude among all intermediate values (S of DESIGN 1.4)."""
    s = 0.0
    for v in intermediates.values():
        try:
            a = np.asarray(v)
            if a.dtype.kind in "fc" and a.size:
                f = np.abs(a[np.isfinite(a)])
                if f.size:
                    s = max(s, float(f.max()))
            elif a.dtype.kind in "iu" and a.size:
                s = max(s, float(np.abs(a.astype(np.float64)).max()))
        except Exception:  # noqa: BLE001
            continue
    return s
