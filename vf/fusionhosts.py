"""Parametrised hosts for the ORT fusion families (property C19).

Every builder takes a Hypothesis ``draw`` and returns a ``Host``: a small, *valid and executable* ONNX model that embeds
an instance (or a near-miss) of the computation one fusion family targets, with every size / option drawn.  The builders
are modelled on the repository's own test models (onnxscript/rewriter/ort_fusions/*_test.py, rewriter/models/*) but use
only onnx.helper - no onnxscript code - so the source model is independent of the code under test.

Drawn parameter space (see each builder): B in {1,2}, S in {1,3,8}, H in {1,2,4}, Dh/D in {2,4,8,16}, float32/float16,
static or symbolic batch/sequence dims, operand orders, constant placement (Constant node / initializer) and shape
(0-d / [1]), eps, bias none/pre/post, mask shapes, scaling variants, past present/absent, near-misses (wrong constant,
wrong axis, extra consumer of an interior value, non-divisible / broadcasting sizes, wrong ranks).
"""
from __future__ import annotations

import math

import numpy as np
import onnx
from onnx import TensorProto as TP
from onnx import helper as oh
from onnx import numpy_helper as onh

from vf.hyp import st

F32, F16 = np.dtype(np.float32), np.dtype(np.float16)
_TP = {F32: TP.FLOAT, F16: TP.FLOAT16, np.dtype(np.int64): TP.INT64, np.dtype(np.int32): TP.INT32,
       np.dtype(np.bool_): TP.BOOL, np.dtype(np.float64): TP.DOUBLE}
INT64_MAX = 9223372036854775807


def tp(dt):
    return _TP[np.dtype(dt)]


# ----------------------------------------------------------------------------- tiny model builder
class GB:
    """Minimal ModelProto builder over onnx.helper."""

    def __init__(self, draw, opset=18, const_style=None):
        self.draw = draw
        self.opset = opset
        self.nodes, self.inputs, self.outputs, self.inits = [], [], [], []
        self.domains = {"": opset}
        self.n = 0
        self.feeds = []  # (name, np dtype, concrete shape, kind, extra)
        self.value_info = []
        self.const_style = const_style or draw(st.sampled_from(["constant", "initializer"]))

    def fresh(self, base="v"):
        self.n += 1
        return f"{base}_{self.n}"

    def inp(self, name, dt, sym_shape, shape, kind="normal", **extra):
        self.inputs.append(oh.make_tensor_value_info(name, tp(dt), list(sym_shape)))
        self.feeds.append((name, np.dtype(dt).name, [int(d) for d in shape], kind, extra))
        return name

    def const(self, arr, name=None, style=None):
        arr = np.asarray(arr)
        name = name or self.fresh("c")
        style = style or self.const_style
        if style == "initializer":
            self.inits.append(onh.from_array(arr, name))
        else:
            self.nodes.append(oh.make_node("Constant", [], [name], value=onh.from_array(arr, name + "_t")))
        return name

    def scalar(self, v, dt, shape=()):
        return self.const(np.full(shape, v, dtype=dt))

    def i64(self, vals):
        return self.const(np.asarray(vals, dtype=np.int64))

    def op(self, op_type, *ins, domain="", nout=1, **attrs):
        if domain:
            self.domains.setdefault(domain, 1)
        outs = [self.fresh(op_type.lower()) for _ in range(nout)]
        self.nodes.append(oh.make_node(op_type, [("" if i is None else i) for i in ins], outs, domain=domain, **attrs))
        return outs[0] if nout == 1 else outs

    def hint(self, name, dt, sym_shape):
        """value_info for an interior value (contrib ops have no shape inference; the repository's GQA test adds the same hints)."""
        self.value_info.append(oh.make_tensor_value_info(name, tp(dt), list(sym_shape)))

    def out(self, name, dt, sym_shape):
        self.outputs.append(oh.make_tensor_value_info(name, tp(dt), list(sym_shape)))

    def model(self):
        g = oh.make_graph(self.nodes, "fusion_host", self.inputs, self.outputs, initializer=self.inits, value_info=self.value_info)
        m = oh.make_model(g, opset_imports=[oh.make_opsetid(d, v) for d, v in self.domains.items()], ir_version=10,
                          producer_name="verif-fusionhosts")
        return m


class Host:
    def __init__(self, family, gb, params, near_miss=None, chain=None):
        self.family = family
        self.model = gb.model()
        self.feeds = gb.feeds
        self.params = params
        self.near_miss = near_miss
        self.chain = chain or family

    def key(self):
        return (self.family, self.near_miss, tuple(sorted((k, repr(v)) for k, v in self.params.items())))


def make_feeds(feed_specs, seed):
    """Concrete inputs as a pure function of (feed descriptors, drawn integer seed)."""
    rng = np.random.default_rng(int(seed))
    style = int(seed) % 4
    feeds = {}
    for name, dt, shape, kind, extra in feed_specs:
        dt = np.dtype(dt)
        shape = tuple(shape)
        if kind == "normal":
            scale = extra.get("scale", 1.0) * (1.0, 0.25, 2.0, 1.0)[style]
            a = rng.standard_normal(shape) * scale
            if style == 3 and a.size:
                a.flat[0] = 0.0
        elif kind == "unit":  # values in [0,1) as in the repository's tests
            a = rng.random(shape)
        elif kind == "positive":
            a = rng.random(shape) + 0.5
        elif kind == "pos_ids":
            mx = int(extra.get("max", 16))
            s = shape[-1] if shape else 1
            mode = extra.get("mode", "arange")
            if mode == "arange":
                start = int(rng.integers(0, max(1, mx - s + 1)))
                a = np.broadcast_to(np.arange(start, start + s), shape).copy()
            else:
                a = rng.integers(0, mx, size=shape)
        elif kind == "mask":
            # additive attention bias: 0 / large negative, first key position always visible
            keep = rng.random(shape) < 0.7
            if keep.size:
                keep[..., 0] = True
            a = np.where(keep, 0.0, extra.get("neg", -1e4 if dt == F32 else -1e4))
            if extra.get("soft"):
                a = rng.standard_normal(shape)
            if extra.get("inf_row") and a.size:  # one query position sees no key at all (what the IsNaN/Where guard exists for)
                a = np.array(a, dtype=np.float64)
                if a.ndim >= 2:
                    a[..., 0, :] = -np.inf
                else:
                    a[...] = -np.inf
        elif kind == "int":
            a = rng.integers(-4, 5, size=shape)
        elif kind == "fixed":  # run-time operands whose value the host depends on (shape operands)
            a = np.asarray(extra["value"]).reshape(shape)
        else:
            raise ValueError(kind)
        feeds[name] = np.asarray(a).astype(dt)
    return feeds


# ----------------------------------------------------------------------------- shared draws
def _dtype(draw):
    return draw(st.sampled_from([F32, F32, F16]))


def _bs(draw):
    B = draw(st.sampled_from([1, 2]))
    S = draw(st.sampled_from([1, 3, 8]))
    sym = draw(st.sampled_from(["static", "static", "symB", "symBS"]))
    Bs = "B" if sym in ("symB", "symBS") else B
    Ss = "S" if sym == "symBS" else S
    return B, S, Bs, Ss, sym


def _comm(draw, a, b):
    """Drawn operand order of a commutative op."""
    return (a, b) if draw(st.booleans()) else (b, a)


# ----------------------------------------------------------------------------- RMS normalisation
def _rms_core(g, draw, x, x_dt, scale, scale_dt, P, D, rank):
    """Emit the primitive RMS-norm computation; returns (output value, output dtype, interior value)."""
    compute_dt = F32 if P["cast_in"] else x_dt
    xc = g.op("Cast", x, to=tp(F32)) if P["cast_in"] else x
    nm = P["near_miss"]
    expo = 3.0 if nm == "pow3" else 2.0
    sq = g.op("Pow", xc, g.scalar(expo, compute_dt if P["pow_exp_typed"] else F32))
    axis = -1
    if nm == "axis_first" and rank >= 2:
        axis = rank - 2
    elif nm == "axis_positive":
        axis = rank - 1
    if g.opset >= 18:
        attrs = {"keepdims": 1, "noop_with_empty_axes": 0} if P.get("attrs_explicit", True) else {}
        ms = g.op("ReduceMean", sq, g.i64([axis]), **attrs)
    else:
        ms = g.op("ReduceMean", sq, axes=[axis], keepdims=1)
    if nm == "eps_vector":
        eps = g.const(np.full((D,), P["eps"], dtype=compute_dt))
    else:
        eps = g.scalar(P["eps"], compute_dt, P["eps_shape"])
    a, b = (ms, eps) if P["eps_second"] else (eps, ms)
    rms = g.op("Sqrt", g.op("Add", a, b))
    rec = g.op("Reciprocal", rms)
    a, b = (xc, rec) if not P["norm_swapped"] else (rec, xc)
    normed = g.op("Mul", a, b)
    out_dt = compute_dt
    if P["cast_out"]:
        normed = g.op("Cast", normed, to=tp(x_dt))
        out_dt = x_dt
    sc = scale
    if P["cast_scale"]:
        sc = g.op("Cast", scale, to=tp(out_dt))
        scale_dt = out_dt
    a, b = (normed, sc) if P["mul_order"] else (sc, normed)
    y = g.op("Mul", a, b)
    return y, out_dt, rec


@st.composite
def rms_norm(draw):
    dt = _dtype(draw)
    opset = draw(st.sampled_from([17, 18, 18, 18, 20]))
    g = GB(draw, opset)
    rank = draw(st.sampled_from([2, 3, 3, 4]))
    B, S, Bs, Ss, sym = _bs(draw)
    D = draw(st.sampled_from([2, 4, 8, 16]))
    H = draw(st.sampled_from([1, 2, 4]))
    shape, sshape = {2: ([S, D], [Ss, D]), 3: ([B, S, D], [Bs, Ss, D]), 4: ([B, H, S, D], [Bs, H, Ss, D])}[rank]
    nm = draw(st.sampled_from([None] * 8 + ["pow3", "axis_first", "axis_positive", "eps_vector", "extra_consumer", "f16_no_cast"]))
    if nm == "f16_no_cast" and dt != F16:
        nm = None
    P = {
        "dtype": dt.name, "rank": rank, "B": B, "S": S, "D": D, "H": H if rank == 4 else 0, "sym": sym, "opset": opset,
        "cast_in": dt == F16 and nm != "f16_no_cast" and draw(st.integers(0, 3)) > 0 or (dt == F32 and draw(st.integers(0, 5)) == 0),
        "cast_out": False, "cast_scale": False, "pow_exp_typed": True,
        "mul_order": draw(st.booleans()), "norm_swapped": draw(st.integers(0, 7)) == 0, "eps_second": draw(st.integers(0, 7)) > 0,
        "eps": draw(st.sampled_from([1e-6, 1e-5, 1e-3, 0.1])), "eps_shape": draw(st.sampled_from([(), (), (), (1,), (1, 1)])),
        "near_miss": nm, "scale_const": draw(st.integers(0, 3)) == 0, "const_style": g.const_style,
        "attrs_explicit": draw(st.integers(0, 7)) > 0,
    }
    if dt == F16 and not P["cast_in"]:
        nm = P["near_miss"] = nm or "f16_no_cast"
    scale_dt = dt
    if P["cast_in"] and dt == F16:
        P["cast_out"] = draw(st.booleans())
        if not P["cast_out"]:
            scale_dt = draw(st.sampled_from([F32, F16]))
            P["cast_scale"] = scale_dt == F16
    P["scale_dtype"] = scale_dt.name
    x = g.inp("x", dt, sshape, shape)
    if P["scale_const"]:
        rs = np.random.default_rng(draw(st.integers(0, 1000)))
        scale = g.const((rs.standard_normal(D) + 1.0).astype(scale_dt))
    else:
        scale = g.inp("scale", scale_dt, [D], [D], scale=1.0)
    y, out_dt, rec = _rms_core(g, draw, x, dt, scale, scale_dt, P, D, rank)
    g.out(y, out_dt, sshape)
    if nm == "extra_consumer":
        rshape = list(sshape)
        rshape[-1] = 1
        g.out(rec, F32 if P["cast_in"] else dt, rshape)
    return Host("rms_normalization", g, P, nm)


# ----------------------------------------------------------------------------- skip (rms / layer) normalisation
@st.composite
def skip_norm(draw):
    dt = _dtype(draw)
    kind = draw(st.sampled_from(["rms_prim", "rms_op", "layer"]))
    opset = draw(st.sampled_from([17, 18, 20]))
    g = GB(draw, opset)
    B, S, Bs, Ss, sym = _bs(draw)
    D = draw(st.sampled_from([2, 4, 8, 16]))
    nm = draw(st.sampled_from([None] * 7 + ["rank2", "skip_broadcast", "bias_rank3", "bias_scalar", "gamma_rank2", "no_beta",
                                            "stash_type", "axis_other"]))
    if nm == "no_beta" and kind != "layer":
        nm = None
    if nm in ("stash_type", "axis_other") and kind == "rms_prim":
        nm = None
    bias = draw(st.sampled_from(["none", "none", "pre", "post"]))
    if nm in ("bias_rank3", "bias_scalar") and bias == "none":
        bias = draw(st.sampled_from(["pre", "post"]))
    P = {"dtype": dt.name, "kind": kind, "B": B, "S": S, "D": D, "sym": sym, "opset": opset, "bias": bias,
         "skip_first": draw(st.booleans()), "bias_first": draw(st.integers(0, 3)) == 0, "eps": draw(st.sampled_from([1e-6, 1e-5, 1e-3, 0.1])),
         "sum_output": draw(st.booleans()), "near_miss": nm, "const_style": g.const_style,
         "consts": draw(st.sampled_from(["inputs", "inputs", "consts"])),
         # the operators' default epsilon differs between ONNX (1e-5) and the fused contrib ops: leave the attribute out sometimes,
         # and feed inputs whose variance is of the order of epsilon, where epsilon matters
         "eps_absent": draw(st.integers(0, 3)) == 0, "input_scale": draw(st.sampled_from([1.0, 1.0, 0.1, 0.01, 0.001]))}
    shape, sshape = ([B, S, D], [Bs, Ss, D])
    if nm == "rank2":
        shape, sshape = ([S, D], [Ss, D])
    x = g.inp("input", dt, sshape, shape, scale=P["input_scale"])
    skip_shape, skip_sshape = list(shape), list(sshape)
    if nm == "skip_broadcast":
        skip_shape[0], skip_sshape[0] = 1, 1
    skip = g.inp("skip", dt, skip_sshape, skip_shape, scale=P["input_scale"])
    rs = np.random.default_rng(draw(st.integers(0, 1000)))

    def vec(name, shp, center=0.0):
        if P["consts"] == "consts":
            return g.const((rs.standard_normal(shp) + center).astype(dt))
        return g.inp(name, dt, list(shp), list(shp))

    gshape = (1, D) if nm == "gamma_rank2" else (D,)
    gamma = vec("gamma", gshape, 1.0)
    if bias != "none":
        bshape = {"bias_rank3": (1, 1, D), "bias_scalar": (1,)}.get(nm, (D,))
        bias_v = vec("bias", bshape)
    cur = x
    if bias == "pre":
        cur = g.op("Add", *((bias_v, cur) if P["bias_first"] else (cur, bias_v)))
    cur = g.op("Add", *((skip, cur) if P["skip_first"] else (cur, skip)))
    if bias == "post":
        cur = g.op("Add", *((bias_v, cur) if P["bias_first"] else (cur, bias_v)))
    ssum = cur
    out_shape = [(a if a != 1 else b) for a, b in zip(sshape, skip_sshape)] if nm == "skip_broadcast" else sshape
    rank = len(shape)
    axis = -1 if nm != "axis_other" else (rank - 2)
    if kind == "layer":
        attrs = {"axis": axis, "epsilon": P["eps"]}
        if P["eps_absent"]:
            del attrs["epsilon"]
        if draw(st.booleans()) or nm == "stash_type":
            attrs["stash_type"] = 1
        ins = [ssum, gamma]
        if nm != "no_beta":
            ins.append(vec("beta", gshape))
        if nm == "axis_other":  # normalise over the last two axes: scale/bias must have that shape
            g2 = g.inp("gamma2", dt, list(shape[-2:]), list(shape[-2:]))
            ins = [ssum, g2]
        y = g.op("LayerNormalization", *ins, **attrs)
        P["attrs"] = sorted(attrs)
    elif kind == "rms_op":
        attrs = {"axis": axis, "epsilon": P["eps"]}
        if P["eps_absent"]:
            del attrs["epsilon"]
        if draw(st.booleans()) or nm == "stash_type":
            attrs["stash_type"] = 1
        if nm == "axis_other":
            gamma = g.inp("gamma2", dt, list(shape[-2:]), list(shape[-2:]))
        y = g.op("SimplifiedLayerNormalization", ssum, gamma, **attrs)
        P["attrs"] = sorted(attrs)
    else:
        RP = {"cast_in": dt == F16, "cast_out": dt == F16, "cast_scale": False, "pow_exp_typed": True, "mul_order": draw(st.booleans()),
              "norm_swapped": False, "eps_second": True, "eps": P["eps"], "eps_shape": (), "near_miss": None}
        y, _, _ = _rms_core(g, draw, ssum, dt, gamma, dt, RP, D, rank)
        P["rms_mul_order"] = RP["mul_order"]
    g.out(y, dt, out_shape)
    if P["sum_output"]:
        g.out(ssum, dt, out_shape)
    fam = "skip_layer_normalization" if kind == "layer" else "skip_rms_normalization"
    return Host(fam, g, P, nm)


# ----------------------------------------------------------------------------- GELU variants
_S2PI = math.sqrt(2.0 / math.pi)
_S2 = math.sqrt(2.0)


def _act_shape(draw):
    rank = draw(st.sampled_from([1, 2, 3, 3, 4]))
    B, S, Bs, Ss, sym = _bs(draw)
    D = draw(st.sampled_from([2, 4, 8, 16]))
    H = draw(st.sampled_from([1, 2, 4]))
    shape, sshape = {1: ([D], [D]), 2: ([S, D], [Ss, D]), 3: ([B, S, D], [Bs, Ss, D]), 4: ([B, H, S, D], [Bs, H, Ss, D])}[rank]
    return rank, shape, sshape, {"rank": rank, "B": B, "S": S, "D": D, "sym": sym}


def _gelu_tanh(g, draw, x, dt, P):
    nm = P["near_miss"]
    c = lambda v: g.scalar(v, dt, P["const_shape"])  # noqa: E731
    order = P["order"]  # 8 booleans: canonical (pattern) order when False

    def bin_(op, a, b, i):
        return g.op(op, *((b, a) if order[i] else (a, b)))

    t1 = g.op("Pow", x, c(2.0 if nm == "pow2" else 3.0))
    t2 = bin_("Mul", c(0.044 if nm == "wrong_const" else 0.044715), t1, 0)
    t3 = bin_("Add", x, t2, 1)
    t4 = bin_("Mul", c(_S2PI), t3, 2)
    t5 = g.op("Tanh", t4)
    t6 = bin_("Add", t5, c(1.0), 3)
    t7 = bin_("Mul", c(0.6 if nm == "half_is_0.6" else 0.5), t6, 4)
    y = bin_("Mul", x, t7, 5)
    return y, t5


def _gelu_erf(g, draw, x, dt, P):
    nm = P["near_miss"]
    c = lambda v: g.scalar(v, dt, P["const_shape"])  # noqa: E731
    order = P["order"]

    def bin_(op, a, b, i):
        return g.op(op, *((b, a) if order[i] else (a, b)))

    if nm == "mul_rsqrt2":
        t1 = g.op("Mul", x, c(1.0 / _S2))
    else:
        t1 = g.op("Div", x, c(1.5 if nm == "wrong_const" else _S2))
    t2 = g.op("Erf", t1)
    t3 = bin_("Add", t2, c(1.0), 0)
    half = c(0.6 if nm == "half_is_0.6" else 0.5)
    form = P["form"]
    if form == "A":  # 0.5 * (x * (erf + 1))      erfgelu pattern 1
        y = bin_("Mul", half, bin_("Mul", x, t3, 1), 2)
    elif form == "B":  # x * (0.5 * (erf + 1))    erfgelu pattern 2
        y = bin_("Mul", x, bin_("Mul", half, t3, 1), 2)
    else:  # (x * (erf + 1)) * 0.5                 gelu.py GeluErfFusion
        y = bin_("Mul", bin_("Mul", x, t3, 1), half, 2)
    return y, t2


@st.composite
def gelu(draw):
    dt = _dtype(draw)
    g = GB(draw, draw(st.sampled_from([18, 20])))
    rank, shape, sshape, P = _act_shape(draw)
    variant = draw(st.sampled_from(["tanh", "erf", "erf"]))
    nm = draw(st.sampled_from([None] * 6 + ["wrong_const", "half_is_0.6", "extra_consumer", "const_shape1"] +
                              (["pow2"] if variant == "tanh" else ["mul_rsqrt2"])))
    canonical = draw(st.integers(0, 2)) > 0
    P.update({"dtype": dt.name, "variant": variant, "near_miss": nm, "const_style": g.const_style, "opset": g.opset,
              "const_shape": (1,) if nm == "const_shape1" else (),
              "order": [False] * 6 if canonical else [draw(st.booleans()) for _ in range(6)],
              "form": draw(st.sampled_from(["A", "B", "C"])) if variant == "erf" else "-"})
    x = g.inp("x", dt, sshape, shape, scale=1.5)
    y, interior = (_gelu_tanh if variant == "tanh" else _gelu_erf)(g, draw, x, dt, P)
    g.out(y, dt, sshape)
    if nm == "extra_consumer":
        g.out(interior, dt, sshape)
    return Host("gelu", g, P, nm)


@st.composite
def bias_gelu(draw):
    dt = _dtype(draw)
    src = draw(st.sampled_from(["onnx_gelu", "contrib_gelu", "erf_prim"]))
    g = GB(draw, 20 if src == "onnx_gelu" else draw(st.sampled_from([18, 20])))
    rank, shape, sshape, P = _act_shape(draw)
    D = P["D"]
    nm = draw(st.sampled_from([None] * 6 + ["bias_rank2", "bias_full", "bias_len1", "input_last1", "approx_tanh", "extra_consumer"]))
    if nm == "approx_tanh" and src != "onnx_gelu":
        nm = None
    if rank == 1 and nm in ("bias_full", "input_last1"):
        nm = None
    bshape = {"bias_rank2": [1, D], "bias_full": list(shape), "bias_len1": [1]}.get(nm, [D])
    bsshape = list(sshape) if nm == "bias_full" else bshape
    if nm == "input_last1":
        shape, sshape = shape[:-1] + [1], sshape[:-1] + [1]
    out_sshape = list(sshape[:-1]) + [D] if nm == "input_last1" else sshape
    P.update({"dtype": dt.name, "src": src, "near_miss": nm, "const_style": g.const_style, "opset": g.opset,
              "bias_first": draw(st.booleans()), "bias_const": draw(st.integers(0, 2)) == 0, "const_shape": (),
              "order": [False] * 6, "form": draw(st.sampled_from(["A", "B", "C"]))})
    x = g.inp("x", dt, sshape, shape, scale=1.5)
    if P["bias_const"]:
        rs = np.random.default_rng(draw(st.integers(0, 1000)))
        b = g.const(rs.standard_normal(bshape).astype(dt))
    else:
        b = g.inp("bias", dt, bsshape, bshape)
    s = g.op("Add", *((b, x) if P["bias_first"] else (x, b)))
    if src == "onnx_gelu":
        attrs = {}
        if nm == "approx_tanh":
            attrs["approximate"] = "tanh"
        elif draw(st.booleans()):
            attrs["approximate"] = "none"
        y = g.op("Gelu", s, **attrs)
    elif src == "contrib_gelu":
        y = g.op("Gelu", s, domain="com.microsoft")
    else:
        y, _ = _gelu_erf(g, draw, s, dt, P)
    g.out(y, dt, out_sshape)
    if nm == "extra_consumer":
        g.out(s, dt, out_sshape)
    return Host("bias_gelu", g, P, nm)


# ----------------------------------------------------------------------------- rotary embedding (+ cos/sin cache, partial)
def _rotate_half_rope(g, x, cos4, sin4, half, end2, P):
    s0 = g.i64([0])
    x1 = g.op("Slice", x, s0, g.i64([half]), g.i64([3]), g.i64([1]))
    x2 = g.op("Slice", x, g.i64([half]), g.i64([end2]), g.i64([3]), g.i64([1]))
    neg = g.op("Neg", x2)
    rot = g.op("Concat", neg, x1, axis=-1)
    a = g.op("Mul", x, cos4)
    b = g.op("Mul", rot, sin4)
    P["_interior"] = rot
    return g.op("Add", a, b)


def _cos_sin_from_positions(g, draw, P, B, S, Bs, Ss, E, dt):
    """cos/sin [B|1, 1, S, 2E] computed from position ids and a constant inv_freq, as transformers does."""
    rs = np.random.default_rng(P["inv_freq_seed"])
    inv = (1.0 / (10.0 ** (np.arange(E) / max(E, 1))) * (0.5 + rs.random(E))).astype(np.float32)
    pos_rank = P["pos_rank"]
    pB, pBs = (B, Bs) if not P["pos_batch1"] else (1, 1)
    if P["pos_const"]:
        start = P["pos_start"]
        arr = np.arange(start, start + S, dtype=np.int64)
        pos = g.const(arr if pos_rank == 1 else np.broadcast_to(arr, (pB, S)).copy())
    elif pos_rank == 2:
        pos = g.inp("position_ids", np.int64, [pBs, Ss], [pB, S], kind="pos_ids", max=P["max_pos"], mode=P["pos_mode"])
    else:
        pos = g.inp("position_ids", np.int64, [Ss], [S], kind="pos_ids", max=P["max_pos"], mode=P["pos_mode"])
    if P.get("near_miss") == "inv_freq_input":
        inv3 = g.inp("inv_freq", np.float32, [1, E, 1], [1, E, 1], kind="positive")
    elif P["inv_freq_form"] == "const3d":
        inv3 = g.const(inv.reshape(1, E, 1))
    else:
        inv3 = g.op("Unsqueeze", g.const(inv), g.i64([0, 2]))
    if P["inv_expand"]:
        inv3 = g.op("Expand", inv3, g.i64([pB, E, 1]))
    pe = g.op("Unsqueeze", pos, g.i64([1] if pos_rank == 2 else [0, 1]))
    pe = g.op("Cast", pe, to=TP.FLOAT)
    freqs = g.op("MatMul", inv3, pe)
    freqs = g.op("Transpose", freqs, perm=[0, 2, 1])
    emb = g.op("Concat", freqs, freqs, axis=-1)
    cos, sin = g.op("Cos", emb), g.op("Sin", emb)
    if dt != F32:
        cos, sin = g.op("Cast", cos, to=tp(dt)), g.op("Cast", sin, to=tp(dt))
    return g.op("Unsqueeze", cos, g.i64([1])), g.op("Unsqueeze", sin, g.i64([1]))


@st.composite
def rotary(draw):
    dt = _dtype(draw)
    g = GB(draw, 18)
    B, S, Bs, Ss, sym = _bs(draw)
    H = draw(st.sampled_from([1, 2, 4]))
    mode = draw(st.sampled_from(["inputs", "cache", "cache", "partial"]))
    Dh = draw(st.sampled_from([2, 4, 8, 16] + ([3] if mode == "inputs" else [])))
    half = Dh // 2
    nm = draw(st.sampled_from([None] * 6 + ["unequal_split", "extra_consumer"] + (["pos_batch1", "inv_freq_input"] if mode != "inputs" else [])))
    if nm == "unequal_split":
        if Dh < 4:
            nm = None
        else:
            half = half - 1  # rotate by unequal parts: valid ONNX, not the rotate-half the fused op implements
    P = {"dtype": dt.name, "B": B, "S": S, "H": H, "Dh": Dh, "sym": sym, "mode": mode, "near_miss": nm, "const_style": g.const_style,
         "end2": draw(st.sampled_from(["Dh", "max"]))}
    end2 = Dh if P["end2"] == "Dh" else INT64_MAX
    if mode == "partial":
        rest = draw(st.sampled_from([2, 4, 8]))
        P["rest"] = rest
        full = Dh + rest
    else:
        full = Dh
    xshape, xsshape = [B, H, S, full], [Bs, H, Ss, full]
    x = g.inp("x", dt, xsshape, xshape)
    if mode == "inputs":
        cs = draw(st.sampled_from(["B1SD", "11SD", "BHSD"]))
        P["cos_shape"] = cs
        cshape, csshape = {"B1SD": ([B, 1, S, Dh], [Bs, 1, Ss, Dh]), "11SD": ([1, 1, S, Dh], [1, 1, Ss, Dh]), "BHSD": ([B, H, S, Dh], [Bs, H, Ss, Dh])}[cs]
        cos4 = g.inp("cos", dt, csshape, cshape, kind="unit")
        sin4 = g.inp("sin", dt, csshape, cshape, kind="unit")
    else:
        P.update({"inv_freq_seed": draw(st.integers(0, 50)), "pos_rank": draw(st.sampled_from([2, 2, 1])),
                  "pos_const": draw(st.integers(0, 4)) == 0, "pos_start": draw(st.sampled_from([0, 0, 5])),
                  "max_pos": draw(st.sampled_from([8, 16, 40])), "pos_mode": draw(st.sampled_from(["arange", "arange", "random"])),
                  "inv_freq_form": draw(st.sampled_from(["const3d", "unsqueeze"])), "inv_expand": draw(st.integers(0, 3)) == 0,
                  "pos_batch1": nm == "pos_batch1", "near_miss": nm})
        P["max_pos"] = max(P["max_pos"], S)
        if nm == "inv_freq_input":
            P["inv_expand"] = False
        cos4, sin4 = _cos_sin_from_positions(g, draw, P, B, S, Bs, Ss, Dh // 2, dt)
    if mode == "partial":
        to_embed = g.op("Slice", x, g.i64([0]), g.i64([Dh]), g.i64([3]), g.i64([1]))
        rest_v = g.op("Slice", x, g.i64([Dh]), g.i64([INT64_MAX]), g.i64([3]), g.i64([1]))
        emb = _rotate_half_rope(g, to_embed, cos4, sin4, half, INT64_MAX, P)
        y = g.op("Concat", emb, rest_v, axis=-1)
    else:
        y = _rotate_half_rope(g, x, cos4, sin4, half, end2, P)
    g.out(y, dt, xsshape)
    interior = P.pop("_interior")
    if nm == "extra_consumer":
        g.out(interior, dt, [Bs, H, Ss, Dh])
    return Host("rotary_embedding", g, P, nm)


# ----------------------------------------------------------------------------- scaled dot-product attention
def _sdpa_core(g, draw, q, k, v, dt, P, Dh, mask=None):
    """q: [B,H,S,Dh]; k: per P['key_form']; v: [B,H,Skv,Dv].  Returns attention output [B,H,S,Dv]."""
    kf = P["key_form"]
    if kf == "T0132":
        kt = g.op("Transpose", k, perm=[0, 1, 3, 2])
    elif kf == "reshape3d":
        k3 = g.op("Reshape", k, g.i64([P["B"] * P["H"], P["Skv"], Dh]))
        k3t = g.op("Transpose", k3, perm=[0, 2, 1])
        kt = g.op("Reshape", k3t, g.i64([P["B"], P["H"], Dh, P["Skv"]]))
    else:  # BSHd key, composed transpose
        kt = g.op("Transpose", k, perm=[0, 2, 3, 1])
    default = 1.0 / math.sqrt(Dh)
    total = default if P["scale_kind"] == "default" else P["custom_scale"]
    where = P["scale_where"]
    cshape = P["scale_shape"]

    def scaled(val, factor, how):
        if how == "Mul":
            return g.op("Mul", val, g.scalar(factor, dt, cshape))
        return g.op("Div", val, g.scalar(1.0 / factor, dt, cshape))

    if where == "pre":
        q = scaled(q, math.sqrt(total), P["scale_op"])
        kt = scaled(kt, math.sqrt(total), P["scale_op2"])
    elif where == "query":
        q = scaled(q, total, P["scale_op"])
    score = g.op("MatMul", q, kt)
    if where == "post":
        score = scaled(score, total, P["scale_op"])
    if mask is not None:
        score = g.op("Add", *((mask, score) if P.get("mask_first") else (score, mask)))
    axis = -1 if P.get("near_miss") != "softmax_axis" else -2
    w = g.op("Softmax", score, axis=axis)
    if P["nan_guard"]:
        w = g.op("Where", g.op("IsNaN", w), g.scalar(0.0, dt), w)
    return g.op("MatMul", w, v)


def _sdpa_params(draw, g, Dh):
    scale_kind = draw(st.sampled_from(["default", "default", "custom", "none"]))
    P = {"scale_kind": scale_kind, "custom_scale": draw(st.sampled_from([0.1, 1.0 / math.sqrt(80), 0.5])),
         "scale_where": draw(st.sampled_from(["pre", "query", "post", "post"])) if scale_kind != "none" else "nowhere",
         "scale_op": draw(st.sampled_from(["Mul", "Div"])), "scale_op2": draw(st.sampled_from(["Mul", "Div"])),
         "scale_shape": draw(st.sampled_from([(), (), (1,)])), "nan_guard": draw(st.booleans()),
         "key_form": draw(st.sampled_from(["T0132", "T0132", "reshape3d", "BSHd"]))}
    return P


@st.composite
def sdpa(draw):
    dt = _dtype(draw)
    g = GB(draw, 18)
    B, S, Bs, Ss, sym = _bs(draw)
    if sym != "static":
        Bs, Ss, sym = B, S, "static"  # reshape3d needs static sizes; symbolic dims are covered by the MHA hosts
    H = draw(st.sampled_from([1, 2, 4]))
    Dh = draw(st.sampled_from([2, 4, 8, 16]))
    Dv = draw(st.sampled_from([Dh, Dh, 4]))
    Skv = draw(st.sampled_from([S, S, 1, 5]))
    nm = draw(st.sampled_from([None] * 7 + ["softmax_axis", "value_batch1", "extra_consumer", "mask_first"]))
    P = _sdpa_params(draw, g, Dh)
    mask_kind = draw(st.sampled_from(["none", "none", "BHSS", "11SS", "B1SS", "SS", "111S", "S_"]))
    if nm == "mask_first" and mask_kind == "none":
        mask_kind = "BHSS"
    P.update({"dtype": dt.name, "B": B, "S": S, "H": H, "Dh": Dh, "Dv": Dv, "Skv": Skv, "near_miss": nm, "mask": mask_kind,
              "mask_first": nm == "mask_first", "const_style": g.const_style, "mask_soft": draw(st.booleans())})
    P["mask_inf_row"] = bool(P["nan_guard"] and mask_kind != "none" and nm is None and draw(st.integers(0, 3)) == 0)
    # the head size as a SYMBOLIC dimension of query/key (exporters with dynamic shapes): the fusion cannot read 1/sqrt(Dh) off the shapes
    P["dh_sym"] = bool(draw(st.integers(0, 3)) == 0)
    if P["dh_sym"] and P["key_form"] == "reshape3d":
        P["key_form"] = "T0132"
    dsym = "Dh" if P["dh_sym"] else Dh
    q = g.inp("query", dt, [B, H, S, dsym], [B, H, S, Dh])
    kshape = [B, Skv, H, Dh] if P["key_form"] == "BSHd" else [B, H, Skv, Dh]
    k = g.inp("key", dt, kshape[:-1] + [dsym], kshape)
    vB = 1 if nm == "value_batch1" else B
    v = g.inp("value", dt, [vB, H, Skv, Dv], [vB, H, Skv, Dv])
    mask = None
    if mask_kind != "none":
        ms = {"BHSS": [B, H, S, Skv], "11SS": [1, 1, S, Skv], "B1SS": [B, 1, S, Skv], "SS": [S, Skv], "111S": [1, 1, 1, Skv], "S_": [Skv]}[mask_kind]
        mask = g.inp("mask", dt, ms, ms, kind="mask", soft=P["mask_soft"], inf_row=P["mask_inf_row"])
    y = _sdpa_core(g, draw, q, k, v, dt, P, Dh, mask)
    g.out(y, dt, [B, H, S, Dv])
    return Host("sdpa", g, P, nm)


# ----------------------------------------------------------------------------- multi-head attention block
@st.composite
def mha(draw):
    dt = _dtype(draw)
    g = GB(draw, 18)
    B, S, Bs, Ss, sym = _bs(draw)
    H = draw(st.sampled_from([1, 2, 4]))
    Dh = draw(st.sampled_from([2, 4, 8, 16]))
    D = H * Dh
    proj = draw(st.sampled_from(["none", "none", "separate", "packed"]))
    past = draw(st.integers(0, 2)) == 0
    Sp = draw(st.sampled_from([1, 3, 4])) if past else 0
    cross = (not past) and proj == "none" and draw(st.integers(0, 4)) == 0
    Skv = draw(st.sampled_from([1, 5])) if cross else S
    nm = draw(st.sampled_from([None] * 8 + ["bias_rank3", "nondiv_reshape", "extra_consumer", "mask_rank3"]))
    rope = (not cross) and nm is None and draw(st.integers(0, 3)) == 0
    P = _sdpa_params(draw, g, Dh)
    P["key_form"] = draw(st.sampled_from(["T0132", "T0132", "BSHd"])) if not (past or rope) else "T0132"
    P["rope"] = rope
    if sym != "static" and P["key_form"] == "reshape3d":
        P["key_form"] = "T0132"
    mask_kind = draw(st.sampled_from(["none", "none", "BHST", "11ST", "B1ST", "ST", "111T"]))
    if nm == "mask_rank3":
        mask_kind = "1ST"
    bias = draw(st.sampled_from(["none", "qkv", "q", "kv"])) if proj != "none" or draw(st.booleans()) else "none"
    if nm == "bias_rank3" and bias == "none":
        bias = draw(st.sampled_from(["qkv", "q", "kv"]))
    P.update({"dtype": dt.name, "B": B, "S": S, "H": H, "Dh": Dh, "sym": sym, "proj": proj, "past": Sp, "cross": cross, "Skv": Skv,
              "near_miss": nm, "mask": mask_kind, "bias": bias, "const_style": g.const_style, "mask_soft": draw(st.booleans()),
              "reshape_form": draw(st.sampled_from(["00HD", "00H-1", "BSHD"])) if sym == "static" else draw(st.sampled_from(["00HD", "00H-1"])),
              "out_form": draw(st.sampled_from(["00-1", "00D"]))})
    P["mask_inf_row"] = bool(P["nan_guard"] and mask_kind != "none" and nm is None and draw(st.integers(0, 3)) == 0)
    rs = np.random.default_rng(draw(st.integers(0, 1000)))
    T = Sp + Skv
    Ts = T if isinstance(Ss, int) else "T"
    Skvs = Skv if (cross or isinstance(Ss, int)) else Ss

    def weight(shape):
        return g.const((rs.standard_normal(shape) / math.sqrt(shape[0])).astype(dt))

    if proj == "none":
        qv = g.inp("query", dt, [Bs, Ss, D], [B, S, D])
        kv = g.inp("key", dt, [Bs, Skvs, D], [B, Skv, D])
        vv = g.inp("value", dt, [Bs, Skvs, D], [B, Skv, D])
    else:
        Din = draw(st.sampled_from([D, 4, 8]))
        P["Din"] = Din
        hid = g.inp("hidden", dt, [Bs, Ss, Din], [B, S, Din])
        if proj == "separate":
            qv, kv, vv = (g.op("MatMul", hid, weight((Din, D))) for _ in range(3))
        else:
            packed = g.op("MatMul", hid, weight((Din, 3 * D)))
            ax = g.i64([2])
            qv = g.op("Slice", packed, g.i64([0]), g.i64([D]), ax)
            kv = g.op("Slice", packed, g.i64([D]), g.i64([2 * D]), ax)
            vv = g.op("Slice", packed, g.i64([2 * D]), g.i64([draw(st.sampled_from([3 * D, INT64_MAX]))]), ax)
    if bias != "none":
        bshape = (1, 1, D) if nm == "bias_rank3" else (D,)

        def addb(val):
            bv = g.const(rs.standard_normal(bshape).astype(dt))
            return g.op("Add", val, bv)

        if bias in ("qkv", "q"):
            qv = addb(qv)
        if bias in ("qkv", "kv"):
            kv, vv = addb(kv), addb(vv)

    def shape4(seq):
        f = P["reshape_form"]
        if nm == "nondiv_reshape" and H > 1:
            return g.i64([0, 0, H // 2, 2 * Dh])  # a different head split than the one the output reshape undoes
        return g.i64({"00HD": [0, 0, H, Dh], "00H-1": [0, 0, H, -1], "BSHD": [B, seq, H, Dh]}[f])

    q4 = g.op("Transpose", g.op("Reshape", qv, shape4(S)), perm=[0, 2, 1, 3])
    k4 = g.op("Reshape", kv, shape4(Skv))
    if P["key_form"] != "BSHd":
        k4 = g.op("Transpose", k4, perm=[0, 2, 1, 3])
    v4 = g.op("Transpose", g.op("Reshape", vv, shape4(Skv)), perm=[0, 2, 1, 3])
    if rope:  # rotate-half rotary embedding of q and k from shared position ids (per batch: [B,S])
        RP = {"inv_freq_seed": draw(st.integers(0, 50)), "pos_rank": 2, "pos_const": False, "pos_start": 0, "max_pos": max(16, S + Sp),
              "pos_mode": "arange", "inv_freq_form": draw(st.sampled_from(["const3d", "unsqueeze"])), "inv_expand": False, "pos_batch1": False}
        P["rope_inv_freq"] = RP["inv_freq_form"]
        cos4, sin4 = _cos_sin_from_positions(g, draw, RP, B, S, Bs, Ss, Dh // 2, dt)
        end2 = draw(st.sampled_from([Dh, INT64_MAX]))
        q4 = _rotate_half_rope(g, q4, cos4, sin4, Dh // 2, end2, RP)
        k4 = _rotate_half_rope(g, k4, cos4, sin4, Dh // 2, end2, RP)
    if past:
        Sps = Sp if isinstance(Ss, int) else "P"
        pk = g.inp("past_key", dt, [Bs, H, Sps, Dh], [B, H, Sp, Dh])
        pv = g.inp("past_value", dt, [Bs, H, Sps, Dh], [B, H, Sp, Dh])
        k4 = g.op("Concat", pk, k4, axis=-2)
        v4 = g.op("Concat", pv, v4, axis=-2)
    mask = None
    Hm = H // 2 if (nm == "nondiv_reshape" and H > 1) else H
    if mask_kind != "none":
        ms, mss = {"BHST": ([B, Hm, S, T], [Bs, Hm, Ss, Ts]), "11ST": ([1, 1, S, T], [1, 1, Ss, Ts]), "B1ST": ([B, 1, S, T], [Bs, 1, Ss, Ts]),
                   "ST": ([S, T], [Ss, Ts]), "111T": ([1, 1, 1, T], [1, 1, 1, Ts]), "1ST": ([1, S, T], [1, Ss, Ts])}[mask_kind]
        mask = g.inp("mask", dt, mss, ms, kind="mask", soft=P["mask_soft"], inf_row=P["mask_inf_row"])
    PP = dict(P)
    PP["Skv"] = T
    att = _sdpa_core(g, draw, q4, k4, v4, dt, PP, Dh, mask)
    att = g.op("Transpose", att, perm=[0, 2, 1, 3])
    y = g.op("Reshape", att, g.i64([0, 0, -1] if P["out_form"] == "00-1" else [0, 0, D]))
    g.out(y, dt, [Bs, Ss, D])
    if past:
        g.out(k4, dt, [Bs, H, Ts, Dh])
        g.out(v4, dt, [Bs, H, Ts, Dh])
    if nm == "extra_consumer":
        g.out(q4, dt, [Bs, H, Ss, Dh])
    return Host("mha", g, P, nm)



# ----------------------------------------------------------------------------- group-query attention (Phi/Gemma style source)
@st.composite
def gqa(draw):
    """Modelled on ort_fusions/gqa_test.py: q/k/v BSD -> heads, com.microsoft.RotaryEmbedding on q and k, optional past concat,
    expansion of the shared kv heads, additive mask, attention, back to BSD.  Near-misses replace the causal mask."""
    dt = draw(st.sampled_from([F32, F32, F16]))
    g = GB(draw, 18, const_style="constant")
    B = draw(st.sampled_from([1, 1, 2]))
    S = draw(st.sampled_from([1, 3, 8]))
    Hkv = draw(st.sampled_from([1, 2]))
    G = draw(st.sampled_from([1, 2, 4]))
    H = Hkv * G
    Dh = draw(st.sampled_from([4, 8, 16, 16, 16, 32]))
    Pl = draw(st.sampled_from([0, 0, 2, 5]))
    with_past = Pl > 0 or draw(st.booleans())
    if not with_past:
        Pl = 0
    T = S + Pl
    M = T + draw(st.sampled_from([0, 3]))
    D, Dkv = H * Dh, Hkv * Dh
    nm = draw(st.sampled_from([None] * 5 + ["mask_input", "mask_noncausal_const", "mask_computed", "no_mask_plus1"]))
    sym = draw(st.sampled_from(["sym", "static"]))
    Bs, Ss, Ps, Ts = ("B", "S", "P", "T") if sym == "sym" else (B, S, Pl, T)
    P = {"dtype": dt.name, "B": B, "S": S, "H": H, "Hkv": Hkv, "Dh": Dh, "past": Pl, "with_past": with_past, "max_seqlen": M, "sym": sym,
         "near_miss": nm, "mask_soft": True, "scale_op": draw(st.sampled_from(["Div", "Mul"]))}
    q = g.inp("query", dt, [Bs, Ss, D], [B, S, D], kind="unit")
    k = g.inp("key", dt, [Bs, Ss, Dkv], [B, S, Dkv], kind="unit")
    v = g.inp("value", dt, [Bs, Ss, Dkv], [B, S, Dkv], kind="unit")
    pk = g.inp("past_key", dt, [Bs, Hkv, Ps, Dh], [B, Hkv, Pl, Dh], kind="unit")
    pv = g.inp("past_value", dt, [Bs, Hkv, Ps, Dh], [B, Hkv, Pl, Dh], kind="unit")
    cos = g.inp("cos", dt, ["M", Dh // 2], [M, Dh // 2], kind="unit")
    sin = g.inp("sin", dt, ["M", Dh // 2], [M, Dh // 2], kind="unit")
    Bv = g.op("Shape", q, start=0, end=1)
    Sv = g.op("Shape", q, start=1, end=2)
    Pv = g.op("Shape", pk, start=2, end=3)
    Tv = g.op("Add", Pv, Sv)
    m1, dh, one = g.i64([-1]), g.i64([Dh]), g.i64([1])
    shape_BSxDh = g.op("Concat", Bv, Sv, m1, dh, axis=0)
    shape_BSD = g.op("Concat", Bv, Sv, m1, axis=0)
    shape_BHkvGTDh = g.op("Concat", Bv, g.i64([Hkv]), g.i64([G]), Tv, dh, axis=0)
    shape_BHTDh = g.op("Concat", Bv, g.i64([H]), Tv, dh, axis=0)
    q4 = g.op("Reshape", q, shape_BSxDh)
    g.hint(q4, dt, [Bs, S, H, Dh])
    qh = g.op("Transpose", q4, perm=[0, 2, 1, 3])
    k4 = g.op("Reshape", k, shape_BSxDh)
    g.hint(k4, dt, [Bs, S, Hkv, Dh])
    kh = g.op("Transpose", k4, perm=[0, 2, 1, 3])
    vh = g.op("Transpose", g.op("Reshape", v, shape_BSxDh), perm=[0, 2, 1, 3])
    P0, T0, S0 = g.op("Squeeze", Pv), g.op("Squeeze", Tv), g.op("Squeeze", Sv)
    pos = g.op("Unsqueeze", g.op("Range", P0, T0, g.const(np.array(1, dtype=np.int64))), g.i64([0]))
    if B > 1:
        pos = g.op("Expand", pos, g.op("Concat", Bv, one, axis=0))
    q_rope = g.op("RotaryEmbedding", qh, pos, cos, sin, domain="com.microsoft")
    k_rope = g.op("RotaryEmbedding", kh, pos, cos, sin, domain="com.microsoft")
    g.hint(q_rope, dt, [Bs, H, S, Dh])
    g.hint(k_rope, dt, [Bs, Hkv, S, Dh])
    if with_past:
        k_seq = g.op("Concat", pk, k_rope, axis=-2)
        v_seq = g.op("Concat", pv, vh, axis=-2)
    else:
        k_seq, v_seq = k_rope, vh
    kx = g.op("Reshape", g.op("Expand", g.op("Unsqueeze", k_seq, g.i64([2])), shape_BHkvGTDh), shape_BHTDh)
    vx = g.op("Reshape", g.op("Expand", g.op("Unsqueeze", v_seq, g.i64([2])), shape_BHkvGTDh), shape_BHTDh)
    g.hint(kx, dt, [Bs, H, T, Dh])
    g.hint(vx, dt, [Bs, H, T, Dh])
    # mask
    if nm == "mask_input":
        mask = g.inp("mask", dt, [Bs, 1, Ss, Ts], [B, 1, S, T], kind="mask", soft=True)
    elif nm == "mask_computed":  # an arbitrary (non-causal) additive mask that is the output of a node
        mask = g.op("Mul", g.inp("mask", dt, [Bs, 1, Ss, Ts], [B, 1, S, T], kind="mask", soft=True), g.scalar(2.0, dt))
    elif nm == "mask_noncausal_const":
        rs = np.random.default_rng(draw(st.integers(0, 1000)))
        mask = g.const(rs.standard_normal((1, 1, S, T)).astype(dt))
    else:
        minv = g.const(np.array([np.finfo(dt).min], dtype=dt))
        plus = 0 if nm == "no_mask_plus1" else 1
        Tp0 = g.op("Add", T0, g.const(np.array(plus, dtype=np.int64)))
        Tp = g.op("Reshape", Tp0, m1)
        cur = g.op("Range", P0, T0, g.const(np.array(1, dtype=np.int64)))
        all_min = g.op("Expand", minv, g.op("Concat", Sv, Tp, axis=0))
        row = g.op("Range", g.const(np.array(0, dtype=np.int64)), Tp0, g.const(np.array(1, dtype=np.int64)))
        col = g.op("Reshape", cur, g.i64([-1, 1]))
        fm = g.op("Mul", all_min, g.op("Cast", g.op("Greater", row, col), to=tp(dt)))
        m4 = g.op("Expand", g.op("Unsqueeze", fm, g.i64([0, 1])), g.op("Concat", Bv, one, one, one, axis=0))
        mask = g.op("Slice", m4, g.i64([0]), g.op("Reshape", T0, m1), g.i64([3]), g.i64([1]))
    kt = g.op("Transpose", kx, perm=[0, 1, 3, 2])
    g.hint(kt, dt, [Bs, H, Dh, T])
    f = math.sqrt(math.sqrt(Dh))
    if P["scale_op"] == "Div":
        sq, sk = g.op("Div", q_rope, g.scalar(f, dt)), g.op("Div", kt, g.scalar(f, dt))
    else:
        sq, sk = g.op("Mul", q_rope, g.scalar(1.0 / f, dt)), g.op("Mul", kt, g.scalar(1.0 / f, dt))
    w = g.op("Softmax", g.op("Add", g.op("MatMul", sq, sk), mask), axis=-1)
    att = g.op("Transpose", g.op("MatMul", w, vx), perm=[0, 2, 1, 3])
    y = g.op("Reshape", att, shape_BSD)
    g.out(y, dt, [Bs, Ss, D])
    g.out(k_seq, dt, [Bs, Hkv, Ts, Dh])
    g.out(v_seq, dt, [Bs, Hkv, Ts, Dh])
    return Host("gqa", g, P, nm)


# ----------------------------------------------------------------------------- FusedMatMul rule set
@st.composite
def fused_matmul(draw):
    dt = draw(st.sampled_from([F32, F32, F16]))
    g = GB(draw, 18)
    rank = draw(st.sampled_from([2, 2, 3, 4]))
    M, K, N = (draw(st.sampled_from([1, 2, 3, 4, 8])) for _ in range(3))
    batch = [draw(st.sampled_from([1, 2, 3])) for _ in range(rank - 2)]
    nm = draw(st.sampled_from([None] * 8 + ["perm_other", "div_vector", "div_input", "div_rank3", "int32", "extra_consumer", "rank1",
                                            "perm_batch_and_last", "perm_batch_and_last"]))
    if nm == "int32":
        dt = np.dtype(np.int32)
    if nm == "perm_batch_and_last":
        rank = 4
        batch = [draw(st.sampled_from([2, 2, 3])) for _ in range(2)]
    ta, tb = draw(st.booleans()), draw(st.booleans())
    if nm == "perm_batch_and_last" and not (ta or tb):
        ta = True
    div = draw(st.sampled_from(["none", "none", "scalar0d", "scalar1", "scalar11"]))
    tout = rank == 2 and nm != "div_rank3" and draw(st.integers(0, 3)) == 0
    src_fused = dt != np.dtype(np.int32) and draw(st.integers(0, 3)) == 0  # source already uses com.microsoft.FusedMatMul
    P = {"dtype": dt.name, "rank": rank, "M": M, "K": K, "N": N, "batch": batch, "transA": ta, "transB": tb, "div": div, "t_out": tout,
         "near_miss": nm, "perm_attr": draw(st.booleans()), "src_fused": src_fused, "const_style": g.const_style,
         "alpha": draw(st.sampled_from([1.0, 0.5])) if src_fused else 1.0, "div_value": draw(st.sampled_from([2.0, 0.25, 8.0, 3.0]))}
    kind = "int" if nm == "int32" else "normal"
    if nm == "rank1":
        a = g.inp("a", dt, [K], [K], kind=kind)
        b = g.inp("b", dt, [K, N], [K, N], kind=kind)
        a_t = g.op("Transpose", a, perm=[0]) if draw(st.booleans()) else g.op("Transpose", a)
        y = g.op("MatMul", a_t, b)
        g.out(y, dt, [N])
        return Host("fused_matmul", g, P, nm)

    def operand(name, rows, cols, transposed):
        shp = batch + ([cols, rows] if transposed else [rows, cols])
        v = g.inp(name, dt, shp, shp, kind=kind)
        if not transposed:
            return v
        perm = list(range(rank))
        perm[-1], perm[-2] = perm[-2], perm[-1]
        if rank == 2 and not P["perm_attr"]:
            return g.op("Transpose", v)
        return g.op("Transpose", v, perm=perm)

    def operand_batch_perm(name, rows, cols):
        # stored as [b1, b0, cols, rows], brought to [b0, b1, rows, cols] by perm [1, 0, 3, 2]: more than a last-two swap
        shp = [batch[1], batch[0], cols, rows]
        return g.op("Transpose", g.inp(name, dt, shp, shp, kind=kind), perm=[1, 0, 3, 2])

    if nm == "perm_other" and rank == 3:
        # a is stored as [M, batch, K] and brought to [batch, M, K]: not a last-two swap, must not become transA
        a = g.op("Transpose", g.inp("a", dt, [M, batch[0], K], [M, batch[0], K], kind=kind), perm=[1, 0, 2])
    else:
        if nm == "perm_other":
            nm = P["near_miss"] = None
        a = operand_batch_perm("a", M, K) if nm == "perm_batch_and_last" and ta else operand("a", M, K, ta)
    b = operand_batch_perm("b", K, N) if nm == "perm_batch_and_last" and tb else operand("b", K, N, tb)
    if src_fused:
        attrs = {}
        if P["alpha"] != 1.0:
            attrs["alpha"] = P["alpha"]
        y = g.op("FusedMatMul", a, b, domain="com.microsoft", **attrs)
    else:
        y = g.op("MatMul", a, b)
    mm = y
    oshape = batch + [M, N]
    if div != "none" or nm in ("div_vector", "div_input", "div_rank3"):
        if nm == "div_vector":
            c = g.const(np.linspace(1.0, 2.0, N).astype(dt))
        elif nm == "div_input":
            c = g.inp("c", dt, [], [], kind="positive")
        elif nm == "div_rank3":
            c = g.scalar(P["div_value"], dt, (1,) * (rank + 1))
            oshape = [1] + oshape
        else:
            c = g.scalar(P["div_value"], dt, {"scalar0d": (), "scalar1": (1,), "scalar11": (1, 1)}.get(div, ()))
        y = g.op("Div", y, c)
    if tout:
        y = g.op("Transpose", y, perm=[1, 0]) if P["perm_attr"] else g.op("Transpose", y)
        oshape = [N, M]
    g.out(y, dt, oshape)
    if nm == "extra_consumer":
        g.out(mm, dt, batch + [M, N])
    return Host("fused_matmul", g, P, nm)


# ----------------------------------------------------------------------------- softmax fp32 upcast
@st.composite
def softmax_upcast(draw):
    legacy = draw(st.sampled_from([False, False, False, True]))
    g = GB(draw, draw(st.sampled_from([11, 12] if legacy else [13, 18, 20, 11, 12])))  # (before opset 13 a Softmax without axis flattens to 2-D at axis 1)
    rank, shape, sshape, P = _act_shape(draw)
    if legacy and rank < 3:
        # by construction: an attribute-less Softmax of an old opset on a tensor of rank >= 3 (default axis 1 + flattening differs from -1 there)
        rank, shape, sshape = 3, [2, 3, P["D"]], [2, 3, P["D"]]
        P.update(rank=3, B=2, S=3, sym="static")
    nm = draw(st.sampled_from([None] * 5 + ["input_f32", "out_f32", "extra_consumer"]))
    in_dt = F32 if nm == "input_f32" else F16
    out_dt = F32 if nm == "out_f32" else F16
    axis = None if legacy else draw(st.sampled_from([None, -1, -1, 0, rank - 1] + ([1] if rank > 1 else [])))
    P["legacy_default_axis"] = legacy
    P.update({"near_miss": nm, "axis": axis, "opset": g.opset, "dtype": "float16"})
    x = g.inp("x", in_dt, sshape, shape, scale=3.0)
    up = g.op("Cast", x, to=TP.FLOAT)
    sm = g.op("Softmax", up, **({} if axis is None else {"axis": axis}))
    y = g.op("Cast", sm, to=tp(out_dt))
    g.out(y, out_dt, sshape)
    if nm == "extra_consumer":
        g.out(sm, F32, sshape)
    return Host("softmax", g, P, nm)


# ----------------------------------------------------------------------------- InstanceNorm-simulated GroupNorm
@st.composite
def instance_to_group_norm(draw):
    dt = _dtype(draw)
    g = GB(draw, 18)
    N = draw(st.sampled_from([1, 2]))
    groups = draw(st.sampled_from([1, 2, 4]))
    cpg = draw(st.sampled_from([1, 2, 4]))
    C = groups * cpg
    Hh, W = draw(st.sampled_from([1, 2, 3])), draw(st.sampled_from([2, 3]))
    nm = draw(st.sampled_from([None] * 5 + ["weight_not_one", "bias_not_zero", "shape_mismatch"]))
    P = {"dtype": dt.name, "N": N, "groups": groups, "C": C, "H": Hh, "W": W, "near_miss": nm, "eps": draw(st.sampled_from([1e-5, 1e-3])),
         "const_style": g.const_style}
    rs = np.random.default_rng(draw(st.integers(0, 1000)))
    x = g.inp("x", dt, [N, C, Hh, W], [N, C, Hh, W])
    adj = g.op("Reshape", x, g.i64([0, groups, -1]))
    w = np.ones(groups, dtype=dt)
    b = np.zeros(groups, dtype=dt)
    if nm == "weight_not_one":
        w[0] = 2.0
    if nm == "bias_not_zero":
        b[-1] = 0.5
    inorm = g.op("InstanceNormalization", adj, g.const(w), g.const(b), epsilon=P["eps"])
    oshape = [N, C, Hh * W, 1] if nm == "shape_mismatch" else [N, C, Hh, W]
    back = g.op("Reshape", inorm, g.i64(oshape))
    wf = g.const((rs.standard_normal((C, 1, 1)) + 1.0).astype(dt))
    bf = g.const(rs.standard_normal((C, 1, 1)).astype(dt))
    y = g.op("Add", g.op("Mul", back, wf), bf)
    g.out(y, dt, oshape)
    return Host("instance_to_group_normalization", g, P, nm)


# ----------------------------------------------------------------------------- shape pre-optimisation (ExtractDim)
@st.composite
def shape_extract_dim(draw):
    """Slice(Shape(Transpose(Reshape(x, Concat(d0, d1, d2, d3)), perm=[0,2,1,3])), start, end): the pre-optimisation of fuse_xformers /
    optimize_for_ort replaces it by the (permuted) dim operands.  That is only right when the Reshape target IS the result shape:
    with allowzero absent/0 a target entry 0 copies the input dimension.  Dim operands are run-time inputs or constants."""
    g = GB(draw, draw(st.sampled_from([18, 18, 20, 14])))
    dims = [draw(st.sampled_from([1, 2, 3, 4])) for _ in range(4)]
    allowzero = draw(st.sampled_from([1, 1, None, 0])) if g.opset >= 14 else None
    target = [dims[0], dims[2], dims[1], dims[3]] if draw(st.booleans()) else list(dims)
    zero_at = None
    if allowzero != 1 and draw(st.sampled_from([True, True, False])):
        cand = [i for i in range(4) if target[i] == dims[i]]  # a 0 entry copies dims[i]: legal exactly where the target keeps that dim
        if cand:
            zero_at = draw(st.sampled_from(cand))
    sent = list(target)
    if zero_at is not None:
        sent[zero_at] = 0
    nm = draw(st.sampled_from([None] * 6 + ["shape_start", "dim_rank0", "perm_other"]))
    P = {"dims": dims, "target": sent, "allowzero": allowzero, "zero_at": zero_at, "opset": g.opset, "near_miss": nm, "dtype": "float32"}
    x = g.inp("x", F32, dims, dims)
    ops = []
    srcs = []
    for i, v in enumerate(sent):
        src = draw(st.sampled_from(["input", "input", "const"]))
        srcs.append(src)
        if nm == "dim_rank0" and i == 1:
            c = g.const(np.asarray(v, dtype=np.int64))
            ops.append(g.op("Unsqueeze", c, g.i64([0])))
        elif src == "input":
            ops.append(g.inp(f"d{i}", np.int64, [1], [1], kind="fixed", value=[v]))
        else:
            ops.append(g.i64([v]))
    P["dim_sources"] = srcs
    shape = g.op("Concat", *ops, axis=0)
    rs = g.op("Reshape", x, shape, **({} if allowzero is None else {"allowzero": allowzero}))
    tr = g.op("Transpose", rs, perm=[0, 2, 1, 3] if nm != "perm_other" else [0, 1, 3, 2])
    sh = g.op("Shape", tr, **({"start": 1} if nm == "shape_start" else {}))
    start, end = draw(st.sampled_from([(0, 1), (1, 2), (1, 3), (2, 4), (0, 4), (3, 4), (2, 3), (1, 4), (0, 2 ** 63 - 1), (-1, 2 ** 63 - 1), (2, 2)]))
    P["slice"] = [start, end]
    fd = g.op("Slice", sh, g.i64([start]), g.i64([end]))
    g.out(fd, np.int64, [None])
    if draw(st.booleans()):
        g.out(tr, F32, [None] * 4)
    return Host("shape_optimization", g, P, nm)


FAMILIES = {
    "rms_normalization": rms_norm,
    "skip_normalization": skip_norm,
    "gelu": gelu,
    "bias_gelu": bias_gelu,
    "rotary_embedding": rotary,
    "sdpa": sdpa,
    "mha": mha,
    "gqa": gqa,
    "fused_matmul": fused_matmul,
    "softmax": softmax_upcast,
    "shape_optimization": shape_extract_dim,
    "instance_to_group_normalization": instance_to_group_norm,
}
