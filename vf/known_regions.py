"""Named predicates over stored cases: the narrow regions of recorded known findings.

A violation is attributed to a known finding only if its bucket matches the finding's bucket
pattern AND the finding's region predicate holds on the case (structural scan).
"""
from __future__ import annotations

REGIONS = {}
