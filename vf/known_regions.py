"""Named predicates over stored cases: the narrow regions of recorded known findings.

A violation is attributed to a known finding only if its bucket matches the finding's bucket pattern AND the finding's
region predicate holds on the case.  Predicates are structural scans of the stored model/program (so that a structure
emerging unplanted in C03/C04/C09 is recognised too) or, for two cross-cutting families, *semantic* re-executions
(the violation vanishes when overridable initializer-inputs keep their defaults; a single rewrite-rule unit applied
alone reproduces an already recorded C05 finding).
"""
from __future__ import annotations

import functools
import json
import os
import re

import numpy as np
import onnx
from onnx import numpy_helper

HOME = os.environ.get("VERIF_HOME") or os.path.dirname(os.path.dirname(os.path.abspath(__file__)))


# ----------------------------------------------------------------------------- model scans
@functools.lru_cache(maxsize=64)
def _model(b64):
    from vf import optcommon

    return optcommon.model_from_json(b64)


def M(case):
    return _model(case["model"])


def opset(m, domain=""):
    for o in m.opset_import:
        if (o.domain or "") == domain:
            return o.version
    return None


def all_nodes(m):
    out = []

    def walk(g):
        for n in g.node:
            out.append((g, n))
            for a in n.attribute:
                if a.type == onnx.AttributeProto.GRAPH:
                    walk(a.g)
                for sg in a.graphs:
                    walk(sg)

    walk(m.graph)
    return out


def nodes(m, *ops):
    return [n for _, n in all_nodes(m) if n.op_type in ops]


def attr(n, name, default=None):
    for a in n.attribute:
        if a.name == name:
            return onnx.helper.get_attribute_value(a)
    return default


def consts(m):
    """name -> numpy array for initializers and Constant nodes of every graph."""
    out = {}

    def walk(g):
        for i in g.initializer:
            try:
                out[i.name] = numpy_helper.to_array(i)
            except Exception:  # noqa: BLE001
                pass
        for n in g.node:
            if n.op_type == "Constant" and n.output:
                for a in n.attribute:
                    try:
                        if a.name == "value":
                            out[n.output[0]] = numpy_helper.to_array(a.t)
                        elif a.name == "value_float":
                            out[n.output[0]] = np.asarray(a.f, dtype=np.float32)
                        elif a.name == "value_int":
                            out[n.output[0]] = np.asarray(a.i, dtype=np.int64)
                        elif a.name == "value_ints":
                            out[n.output[0]] = np.asarray(list(a.ints), dtype=np.int64)
                        elif a.name == "value_floats":
                            out[n.output[0]] = np.asarray(list(a.floats), dtype=np.float32)
                    except Exception:  # noqa: BLE001
                        pass
            for a in n.attribute:
                if a.type == onnx.AttributeProto.GRAPH:
                    walk(a.g)

    walk(m.graph)
    return out


def overridable(m):
    ins = {i.name for i in m.graph.input}
    return {i.name for i in m.graph.initializer if i.name in ins}


def producers(m):
    return {o: n for _, n in all_nodes(m) for o in n.output}


@functools.lru_cache(maxsize=64)
def _shapes(b64):
    m = _model(b64)
    out = {}
    try:
        mi = onnx.shape_inference.infer_shapes(m)
    except Exception:  # noqa: BLE001
        mi = m
    for vi in list(mi.graph.value_info) + list(mi.graph.input) + list(mi.graph.output):
        if vi.type.HasField("tensor_type") and vi.type.tensor_type.HasField("shape"):
            out[vi.name] = [d.dim_value if d.HasField("dim_value") else (d.dim_param or None) for d in vi.type.tensor_type.shape.dim]
    for k, v in consts(m).items():
        out.setdefault(k, list(v.shape))
    return out


def shapes(case):
    return _shapes(case["model"])


def rule_of(case):
    return case.get("rule", "")


# ----------------------------------------------------------------------------- semantic family: overridable initializer-inputs
def vanishes_with_default_initializers(case):
    """The rule fired on a model with initializer-inputs and the violation disappears when those keep their defaults."""
    m = M(case)
    ov = overridable(m)
    if not ov or "rule" not in case:
        return False
    from vf import optcommon
    from vf.props import C05

    feeds = [optcommon.feeds_from_json(f) for f in case.get("feeds", [])]
    if not any(k in f for f in feeds for k in ov):
        return False
    stripped = [{k: v for k, v in f.items() if k not in ov} for f in feeds]
    verdicts, _ = C05.check(m, case["rule"], stripped, case.get("commute", False))
    return not verdicts


# ----------------------------------------------------------------------------- structural regions per rule (C05)
def _near_literal(m, op, lit):
    """op node with a single-element constant operand close to, but not exactly, the literal (pattern tolerance rel 1e-5 / abs 1e-8)."""
    c = consts(m)
    for n in nodes(m, op):
        for x in n.input:
            v = c.get(x)
            if v is not None and v.size == 1 and v.dtype.kind == "f":
                f = float(v.reshape(()))
                if f != lit and abs(f - lit) <= max(1e-5 * max(abs(f), abs(lit)), 1e-8):
                    return True
    return False


def _size1_rank_ge1_const_operand(m, ops):
    c = consts(m)
    for n in nodes(m, *ops):
        for x in n.input[1:]:
            v = c.get(x)
            if v is not None and v.size == 1 and v.ndim >= 1:
                return True
    return False


def _clip_bounds(n, c):
    lo = c.get(n.input[1]) if len(n.input) > 1 and n.input[1] else None
    hi = c.get(n.input[2]) if len(n.input) > 2 and n.input[2] else None
    return (None if lo is None else float(np.asarray(lo).reshape(-1)[0])), (None if hi is None else float(np.asarray(hi).reshape(-1)[0]))


def _clip_chain_order_matters(m):
    """Clip(Clip(x, lo1, hi1), lo2, hi2) whose intervals are disjoint or inverted (max-of-lows/min-of-highs is then wrong)."""
    c = consts(m)
    prod = producers(m)
    for n in nodes(m, "Clip"):
        p = prod.get(n.input[0]) if n.input else None
        if p is None or p.op_type != "Clip":
            continue
        lo1, hi1 = _clip_bounds(p, c)
        lo2, hi2 = _clip_bounds(n, c)
        inf = float("inf")
        a, b, cc, d = (lo1 if lo1 is not None else -inf), (hi1 if hi1 is not None else inf), (lo2 if lo2 is not None else -inf), (hi2 if hi2 is not None else inf)
        if a > b or cc > d or b < cc or d < a:
            return True
        # longer chains are fused step by step: the interval accumulated over the chain so far (max of the lows, min of the highs) may
        # be disjoint from the next Clip although every adjacent pair overlaps (Clip(Clip(Clip(x, -1, 3), 2), 6): [2, 3] then [6, inf))
        lo_acc, hi_acc, q = max(a, cc), min(b, d), p
        while True:
            q = prod.get(q.input[0]) if q.input else None
            if q is None or q.op_type != "Clip":
                break
            lo0, hi0 = _clip_bounds(q, c)
            lo_acc, hi_acc = max(lo_acc, lo0 if lo0 is not None else -inf), min(hi_acc, hi0 if hi0 is not None else inf)
        if lo_acc > hi_acc:
            return True
    return False


def _old_clip_attr_form(m):
    return (opset(m) or 99) < 11 and bool(nodes(m, "Clip"))


def _cast_cos(m):
    """(to, value array) of Cast(ConstantOfShape(...)) chains."""
    prod = producers(m)
    out = []
    for n in nodes(m, "Cast"):
        p = prod.get(n.input[0]) if n.input else None
        if p is not None and p.op_type == "ConstantOfShape":
            v = attr(p, "value")
            out.append((attr(n, "to"), None if v is None else numpy_helper.to_array(v)))
    return out


def _int_range(to):
    np_t = {2: np.uint8, 3: np.int8, 4: np.uint16, 5: np.int16, 6: np.int32, 7: np.int64, 12: np.uint32, 13: np.uint64}.get(to)
    if np_t is None:
        return None
    ii = np.iinfo(np_t)
    return ii.min, ii.max


def _cast_cos_int_wrap(m):
    for to, v in _cast_cos(m):
        r = _int_range(to)
        if r and v is not None and v.size and v.dtype.kind in "iu":
            x = int(v.reshape(-1)[0])
            if x < r[0] or x > r[1]:
                return True
    return False


def _twin_flatten(m):
    seen = {}
    for n in nodes(m, "Flatten"):
        seen[n.input[0]] = seen.get(n.input[0], 0) + 1
    return any(v >= 2 for v in seen.values())


def _flatten_zero_size(case):
    from vf import optcommon

    for f in case.get("feeds", []):
        if any(0 in optcommon.arr_from_json(v).shape for v in f.values()):
            return bool(nodes(M(case), "Flatten"))  # symbolic dim bound to 0 at run time
    sh = shapes(case)
    for n in nodes(M(case), "Flatten"):
        s = sh.get(n.input[0])
        if s and any(d == 0 for d in s):
            return True
    return False


def _slice_last_dim_odd(case):
    sh = shapes(case)
    for n in nodes(M(case), "Slice"):
        s = sh.get(n.input[0])
        if s and isinstance(s[-1], int) and s[-1] % 2 == 1:
            return True
    return False


def _add_of_matmul_addend_not_gemm_compatible(case):
    """Add(MatMul(a, b), c) where c has rank > 2 or would have to broadcast the MatMul result up."""
    m = M(case)
    sh = shapes(case)
    prod = producers(m)
    for n in nodes(m, "Add"):
        for i in (0, 1):
            p = prod.get(n.input[i])
            if p is not None and p.op_type == "MatMul":
                mm = sh.get(n.input[i])
                c = sh.get(n.input[1 - i])
                if c is None:
                    continue
                if len(c) > 2:
                    return True
                if mm and len(mm) == 2:
                    pad = [1] * (2 - len(c)) + list(c)
                    # c must broadcast *into* [M, N]: each dim 1 or provably equal (a symbolic or larger dim may broadcast the product up)
                    if any(not (x == 1 or x == y) for x, y in zip(pad, mm)):
                        return True
    return False


def _gemm_trans_or_rank(case):
    m = M(case)
    sh = shapes(case)
    prod = producers(m)
    for n in nodes(m, "Gemm"):
        if attr(n, "transA", 0) or attr(n, "transB", 0):
            return True
        p = prod.get(n.input[0])
        if p is not None and p.op_type == "Reshape":
            s = sh.get(p.input[0])
            if s is not None and len(s) != 2:
                return True
    return False


def _reshape_feeding_matmul_changes_matrix_dims(case):
    """Reshape(MatMul(Reshape(a, sa), [Reshape](b, sb)), sc): an input reshape that is not a pure merge/split of batch dims."""
    m = M(case)
    sh = shapes(case)
    prod = producers(m)
    for n in nodes(m, "MatMul"):
        for pos, x in enumerate(n.input):
            p = prod.get(x)
            if p is not None and p.op_type == "Reshape":
                src, dst = sh.get(p.input[0]), sh.get(x)
                if src is None or dst is None:
                    return True
                k = 1 if (len(src) == 1 or len(dst) == 1) else 2
                if list(src[-k:]) != list(dst[-k:]) or len(src) == 1 or len(dst) == 1:
                    return True
                # same defect, other face: the input Reshape only regroups batch dims, but the other operand has batch dims of its
                # own, so dropping the Reshape changes which batch dims are aligned by broadcasting ([3,1,3] vs [3,1,1,3] against [3,3,3,3])
                other = sh.get(n.input[1 - pos])
                if list(src[:-k]) != list(dst[:-k]) and (other is None or len(other) > 2):
                    return True
    return False


def _bn_gemm_beta_or_types(case):
    m = M(case)
    c = consts(m)
    for n in nodes(m, "Gemm"):
        if attr(n, "beta", 1.0) != 1.0:
            return True
    for n in nodes(m, "BatchNormalization"):
        dts = {c[x].dtype for x in n.input[1:] if x in c}
        g = [c[x].dtype for gn in nodes(m, "Gemm") for x in gn.input[1:] if x in c]
        if dts and g and (len(dts | set(g)) > 1):
            return True
        if any(d == np.float64 for d in dts) and attr(n, "epsilon") is None:
            return True  # python 1e-5 vs float32(1e-5) default epsilon in float64
    return False


def _hardswish(case):
    m = M(case)
    c = consts(m)
    if (opset(m) or 99) < 14:
        return True
    sh = shapes(case)
    for n in nodes(m, "Add", "Mul", "Div", "Clip", "HardSigmoid"):
        for x in n.input:
            v = c.get(x)
            if v is not None and v.size == 1:
                if v.ndim >= 1:
                    return True  # singleton constants of higher rank change the output rank
                if v.dtype.kind in "iu":
                    return True  # integer tensors fused into HardSigmoid/HardSwish
                if v.dtype == np.float64:
                    return True  # float64: constants within tolerance / float32 alpha
    for vi in m.graph.input:
        if vi.type.tensor_type.elem_type in (6, 7, 11):
            return True  # integer tensors; float64 (HardSwish uses float32(1/6), constants match within 1e-4)
    for v in c.values():
        if v.size == 1 and v.dtype.kind == "f":
            f = float(v.reshape(-1)[0])
            for k in (3.0, 6.0, 1.0 / 6.0, 0.5):
                if f != k and f != float(np.float32(k)) and abs(f - k) <= 2e-4 * k:
                    return True  # constant only approximately the pattern literal (rtol 1e-4)
    for n in nodes(m, "HardSigmoid"):
        a = attr(n, "alpha", 0.2)
        if a != float(np.float32(1.0 / 6.0)):
            return True  # alpha only approximately 1/6
    return False


def _convinteger_nonzero_x_zero_point(m):
    c = consts(m)
    for n in nodes(m, "ConvInteger"):
        if len(n.input) > 2 and n.input[2]:
            v = c.get(n.input[2])
            if v is None or np.any(v != 0):
                return True
    return False


def _same_autopad_with_dilation(m):
    for n in nodes(m, "Conv", "ConvInteger"):
        ap = attr(n, "auto_pad", b"NOTSET")
        ap = ap.decode() if isinstance(ap, bytes) else ap
        if ap.startswith("SAME") and any(d > 1 for d in (attr(n, "dilations") or [])):
            return True
    return False


def _conv_affine_scale_offset_rank(case):
    """Conv(x, w, b) * s + o with s or o of rank >= 2 (size 1): the fused weight/bias change rank."""
    m = M(case)
    c = consts(m)
    for n in nodes(m, "Mul", "Add"):
        for x in n.input:
            v = c.get(x)
            if v is not None and v.size == 1 and v.ndim >= 2:
                return True
    return False


def _autopad_and_pads_both(m):
    for n in nodes(m, "Conv"):
        ap = attr(n, "auto_pad", b"NOTSET")
        ap = ap.decode() if isinstance(ap, bytes) else ap
        if ap != "NOTSET" and attr(n, "pads") is not None:
            return True
    return False


def _reshape_minus1_with_zero_dim(case):
    sh = shapes(case)
    for n in nodes(M(case), "Reshape"):
        s = sh.get(n.output[0])
        if s and 0 in s and sum(1 for d in s if not isinstance(d, int)) == 1:
            return True
    return False


def _result_has_clip_with_inputs(case):
    """The rewritten model has a Clip with bound INPUTS that the original did not have."""
    from vf.props import C05

    m = M(case)
    had = sum(1 for n in nodes(m, "Clip") if len(n.input) > 1)
    r = C05.apply_rule(m, rule_of(case), case.get("commute", False))
    return r[0] == "ok" and sum(1 for n in nodes(r[2], "Clip") if len(n.input) > 1) > had


def _result_has_new_allowzero(case):
    """The rewritten model has a Reshape carrying an allowzero attribute that the original did not have (the recorded defect is exactly
    that attribute below opset 14; any other failure of the rule on such a model is not this finding)."""
    from vf.props import C05

    m = M(case)
    had = sum(1 for n in nodes(m, "Reshape") if attr(n, "allowzero") is not None)
    r = C05.apply_rule(m, "materialize_reshape_shape_rule", case.get("commute", False))
    if r[0] != "ok":
        return False
    return sum(1 for n in nodes(r[2], "Reshape") if attr(n, "allowzero") is not None) > had


def _shape_with_end(m):
    return any(attr(n, "end") is not None for n in nodes(m, "Shape"))


BINOPS = ["Add", "And", "BitShift", "BitwiseAnd", "BitwiseOr", "BitwiseXor", "Div", "Equal", "Greater", "GreaterOrEqual", "Less", "LessOrEqual",
          "Mod", "Mul", "Or", "Pow", "PRelu", "Sub", "Xor"]


def _expand_rank_extending(case):
    m = M(case)
    sh = shapes(case)
    prod = producers(m)
    c = consts(m)
    for n in nodes(m, *BINOPS):
        for i, x in enumerate(n.input[:2]):
            p = prod.get(x)
            if p is not None and p.op_type == "Expand":
                tgt = c.get(p.input[1])
                tlen = len(tgt) if tgt is not None else (sh.get(p.input[1]) or [None])[0]
                ra = len(sh.get(p.input[0]) or [])
                other = n.input[1 - i] if len(n.input) > 1 else None
                po = prod.get(other) if other else None
                if po is not None and po.op_type == "Expand":
                    other = po.input[0]  # the rule removes the Expand on either side: what counts is the rank of the un-expanded operand
                rb = len(sh.get(other) or []) if other else 0
                if isinstance(tlen, int) and tlen > max(ra, rb):
                    return True
    return False


def _expand_dynamic_target(case):
    """An Expand feeding a binary op whose target shape is computed at run time (Shape / Concat / Slice chains over symbolic dims)."""
    m = M(case)
    prod = producers(m)
    c = consts(m)
    for n in nodes(m, *BINOPS):
        for x in n.input[:2]:
            p = prod.get(x)
            if p is not None and p.op_type == "Expand" and len(p.input) > 1 and c.get(p.input[1]) is None:
                return True
    return False


def _expand_before_attr_op(m):
    prod = producers(m)
    for n in nodes(m, "BitShift", "Mod"):
        if n.op_type == "Mod" and not attr(n, "fmod", 0):
            continue
        if any(prod.get(x) is not None and prod[x].op_type == "Expand" for x in n.input):
            return True
    return False


def _prelu_data_operand_expanded(m):
    prod = producers(m)
    return any(n.input and prod.get(n.input[0]) is not None and prod[n.input[0]].op_type == "Expand" for n in nodes(m, "PRelu"))


def _rule(case, *names):
    return rule_of(case) in names


C05_REGIONS = {
    "rule_treats_initializer_input_as_constant": vanishes_with_default_initializers,
    "noop_arith_constant_within_tolerance": lambda c: (_rule(c, "mul_by_1_rule") and _near_literal(M(c), "Mul", 1.0)) or (_rule(c, "div_by_1_rule") and _near_literal(M(c), "Div", 1.0))
    or (_rule(c, "add_0_rule") and _near_literal(M(c), "Add", 0.0)) or (_rule(c, "sub_0_rule") and _near_literal(M(c), "Sub", 0.0)),
    "minmax_to_clip_before_opset11": lambda c: _rule(c, "min_max_rule", "max_min_rule") and (opset(M(c)) or 99) < 11 and _result_has_clip_with_inputs(c),
    "minmax_clip_bounds_size1_not_rank0": lambda c: _rule(c, "min_max_rule", "max_min_rule") and _size1_rank_ge1_const_operand(M(c), ("Min", "Max")),
    "clip_chain_disjoint_or_inverted": lambda c: _rule(c, "successive_clip_rule") and _clip_chain_order_matters(M(c)),
    "clip_opset_lt11_attribute_form": lambda c: _rule(c, "successive_clip_rule", "successive_relu_clip_rule", "successive_clip_relu_rule") and _old_clip_attr_form(M(c)),
    "cast_cos_to_bfloat16_before_opset20": lambda c: _rule(c, "cast_constant_of_shape_rule", "cast_constant_of_shape_without_value_rule") and (opset(M(c)) or 99) < 20
    and any(to == 16 for to, _ in _cast_cos(M(c))),
    "cast_cos_to_string": lambda c: _rule(c, "cast_constant_of_shape_rule", "cast_constant_of_shape_without_value_rule") and any(to == 8 for to, _ in _cast_cos(M(c))),
    "cast_cos_integer_wraparound": lambda c: _rule(c, "cast_constant_of_shape_rule") and _cast_cos_int_wrap(M(c)),
    "flatten_twin_same_input": lambda c: _rule(c, "flatten_to_reshape_rule") and _twin_flatten(M(c)),
    "flatten_zero_size_dim": lambda c: _rule(c, "flatten_to_reshape_rule") and _flatten_zero_size(c),
    "slice_split_before_opset18": lambda c: _rule(c, "slice_split_rule") and (opset(M(c)) or 99) < 18,
    "slice_split_odd_last_dim": lambda c: _rule(c, "slice_split_rule") and _slice_last_dim_odd(c),
    "matmul_add_addend_rank_or_broadcast": lambda c: _rule(c, "matmul_add_to_gemm_rule", "transpose_a_matmul_add_to_gemm_rule", "transpose_b_matmul_add_to_gemm_rule",
                                                           "transpose_ab_matmul_add_to_gemm_rule") and _add_of_matmul_addend_not_gemm_compatible(c),
    "gemm_to_matmul_add_trans_or_rank": lambda c: _rule(c, "gemm_to_matmul_add_rule") and _gemm_trans_or_rank(c),
    "reshape_matmul_reshape_regroups_matrix_dims": lambda c: _rule(c, "one_reshape_matmul_reshape_rule", "two_reshapes_matmul_reshape_rule") and _reshape_feeding_matmul_changes_matrix_dims(c),
    "bn_into_gemm_beta_or_mixed_types": lambda c: _rule(c, "fuse_batchnorm_into_gemm_rule") and _bn_gemm_beta_or_types(c),
    "hardswish_opset_int_rank_or_float64": lambda c: _rule(c, "fuse_hardswish_rules") and _hardswish(c),
    "pad_into_convinteger_nonzero_x_zero_point": lambda c: _rule(c, "fuse_pad_into_conv_integer_rule") and _convinteger_nonzero_x_zero_point(M(c)),
    "normalize_pad_same_autopad_with_dilation": lambda c: _rule(c, "normalize_pad_format_conv_rule", "normalize_pad_format_conv_integer_rule") and _same_autopad_with_dilation(M(c)),
    "conv_affine_scale_offset_rank_ge2": lambda c: _rule(c, "conv_affine_fusion_rule") and _conv_affine_scale_offset_rank(c),
    "affine_conv_autopad_and_pads": lambda c: _rule(c, "affine_conv_fusion_rule") and _autopad_and_pads_both(M(c)),
    "gemm_bias_removed_before_opset11": lambda c: _rule(c, "remove_optional_bias_from_gemm_rule") and (opset(M(c)) or 99) < 11,
    "materialize_reshape_before_opset14": lambda c: _rule(c, "materialize_reshape_shape_rule") and (opset(M(c)) or 99) < 14 and _result_has_new_allowzero(c),
    "materialize_reshape_minus1_with_zero_dim": lambda c: _rule(c, "materialize_reshape_shape_rule") and _reshape_minus1_with_zero_dim(c),
    "dynamic_scatter_shape_with_end": lambda c: _rule(c, "no_op_dynamic_scatter_nd_rule") and _shape_with_end(M(c)),
    "expand_binop_rank_extending": lambda c: _rule(c, "expand_before_binary_op_rules") and _expand_rank_extending(c),
    "expand_binop_dynamic_target_shape": lambda c: _rule(c, "expand_before_binary_op_rules") and _expand_dynamic_target(c),
    "expand_binop_prelu_data_operand": lambda c: _rule(c, "expand_before_binary_op_rules") and _prelu_data_operand_expanded(M(c)),
    "expand_binop_attribute_dropped": lambda c: _rule(c, "expand_before_binary_op_rules") and _expand_before_attr_op(M(c)),
}


# ----------------------------------------------------------------------------- pipeline-level reduction (C03 / C04 / C09)
@functools.lru_cache(maxsize=1)
def _known_c05():
    p = os.path.join(HOME, "known_findings.json")
    if not os.path.exists(p):
        return []
    return [e for e in json.load(open(p)).get("findings", []) if "C05" in e.get("properties", [e.get("property")]) and e.get("status") == "known"]


def reduces_to_known_rule_finding(case):
    """Some single rewrite-rule unit of the default set, applied alone (plain or commuted, as the default set does) to the same
    model and inputs, reproduces a violation that is itself attributed to a recorded C05 finding - and no unit produces a
    violation that no recorded finding covers."""
    from vf import optcommon
    from vf.props import C05

    m = M(case)
    feeds = [optcommon.feeds_from_json(f) for f in case.get("feeds", [])]
    if not feeds and "binding" in case:
        from vf import modelgen

        gm = modelgen.GenModel(m, {}, [tuple(x) for x in case["input_specs"]], [], [], 0, 0, {}, case["declared"])
        b = {(tuple(k) if isinstance(k, list) else k): v for k, v in case["binding"]}
        feeds = [gm.feeds_for_binding(b, case.get("seed", 0))]
    feeds_json = case.get("feeds") or [optcommon.feeds_to_json(f) for f in feeds]
    known = _known_c05()
    hit = False
    for unit in sorted(C05.rule_units()):
        for commute in (False, True):
            verdicts, info = C05.check(m, unit, feeds, commute)
            for bucket, _ in verdicts:
                sub = {"rule": unit, "model": case["model"], "feeds": feeds_json, "commute": commute}
                ok = False
                for e in known:
                    pred = C05_REGIONS.get(e.get("region"))
                    if pred is not None and re.fullmatch(e["bucket"], bucket):
                        try:
                            if pred(sub):
                                ok = True
                                break
                        except Exception:  # noqa: BLE001
                            pass
                if not ok:
                    return False  # a rule misbehaves here in a way no recorded finding covers
                hit = True
    return hit or _stepwise_reduction(case, m, feeds, known) or _ablation_reduction(case, known)


def _ablation_reduction(case, known):
    """Last resort for violations that only the interplay of passes produces (no unit misbehaves on the original model, and the
    one-firing-at-a-time replay does not reach the state the real pipeline reaches, e.g. because common-subexpression elimination runs
    in between): the violation disappears when the rules that recorded C05 findings name are taken out of the default rule set."""
    import onnxscript.rewriter as rw
    from vf.props import C05

    units = C05.rule_units()
    named = {n for e in known for n in units if re.search(r"(?<![A-Za-z0-9_])" + re.escape(n) + r"(?![A-Za-z0-9_])", e["bucket"].replace("\\", ""))}
    ids = {id(r) for n in named for r in units[n].rules}
    names = {r.name for n in named for r in units[n].rules if r.name}
    orig = rw._DEFAULT_REWRITE_RULES
    kept = tuple(r for r in orig if id(r) not in ids and (r.name is None or r.name not in names))
    if len(kept) == len(orig):
        return False
    if "binding" in case:
        from vf.props import C09 as mod
    elif "overridable" in case:
        from vf.props import C04 as mod
    else:
        from vf.props import C03 as mod
    rw._DEFAULT_REWRITE_RULES = kept
    try:
        return not mod.replay(case)
    except Exception:  # noqa: BLE001
        return False
    finally:
        rw._DEFAULT_REWRITE_RULES = orig


def _attributed(unit, model, feeds, bucket, commute, known):
    from vf import optcommon

    sub = {"rule": unit, "model": optcommon.model_to_json(model), "feeds": [optcommon.feeds_to_json(f) for f in feeds], "commute": commute}
    for e in known:
        pred = C05_REGIONS.get(e.get("region"))
        if pred is not None and re.fullmatch(e["bucket"], bucket):
            try:
                if pred(sub):
                    return True
            except Exception:  # noqa: BLE001
                pass
    return False


def _stepwise_reduction(case, m, feeds, known, max_steps=24):
    """Rules interact (Pad fused into Conv, then the Conv's auto_pad normalised ...): replay the pipeline one firing at a time -
    fold constants, then the first unit of the default order that fires - and judge each firing on the model it was applied to."""
    import onnxscript.optimizer as opt
    from vf import compare
    from vf.props import C05

    cur = onnx.ModelProto()
    cur.CopyFrom(m)
    for _ in range(max_steps):
        folded = onnx.ModelProto()
        folded.CopyFrom(cur)
        try:
            opt.fold_constants(folded, onnx_shape_inference=True)
        except Exception:  # noqa: BLE001
            return False
        try:
            opt.remove_unused_nodes(folded)  # the pipeline removes dead nodes between passes: a dead second consumer no longer blocks a rule
        except Exception:  # noqa: BLE001
            return False
        if folded.SerializeToString() != cur.SerializeToString():
            v, _ = compare.decide(compare.Source(cur), folded, feeds)
            if v.startswith("violation"):
                return False  # constant folding / dead-code removal itself breaks this model: not a rewrite-rule finding
            cur = folded
        fired = False
        for unit in sorted(C05.rule_units()):
            for commute in (False, True):
                r = C05.apply_rule(cur, unit, commute)
                if r[0] == "raise":
                    return _attributed(unit, cur, feeds, f"raise:{unit}:{r[2]}", commute, known)
                if r[1]:
                    verdicts, _ = C05.check(cur, unit, feeds, commute)
                    if verdicts:
                        return all(_attributed(unit, cur, feeds, b, commute, known) for b, _ in verdicts)
                    cur = r[2]
                    fired = True
                    break
            if fired:
                break
        if not fired:
            return False
    return False


def _live_values(m, shape_only_ops=()):
    """Values needed (transitively) by the graph outputs of the main graph; uses inside subgraphs count for the owning node.
    shape_only_ops: operators that read only the shape of their first input (folded away when that shape is static) - their first
    input is not counted as needed."""
    prod = {}
    for n in m.graph.node:
        for o in n.output:
            prod[o] = n

    def node_inputs(n):
        ins = list(n.input)
        for a in n.attribute:
            if a.type == onnx.AttributeProto.GRAPH:
                for _, sn in [(None, x) for x in _walk_nodes(a.g)]:
                    ins += list(sn.input)
        return ins

    live, todo = set(), [o.name for o in m.graph.output]
    while todo:
        v = todo.pop()
        if v in live or not v:
            continue
        live.add(v)
        n = prod.get(v)
        if n is not None:
            todo += node_inputs(n)[1:] if n.op_type in shape_only_ops else node_inputs(n)
    return live


def _walk_nodes(g):
    for n in g.node:
        yield n
        for a in n.attribute:
            if a.type == onnx.AttributeProto.GRAPH:
                yield from _walk_nodes(a.g)


def bn_training_mode_unused_stats(case):
    """BatchNormalization<training_mode=1> whose running_mean/running_var outputs are dead: onnx_ir's RemoveUnusedNodesPass (run by
    optimize/rewrite) blanks those outputs and pops training_mode, turning batch statistics into inference statistics."""
    m = M(case)
    live = _live_values(m, shape_only_ops=("Shape", "Size"))  # (a statistic read only through Shape/Size is dead once that is folded)
    for n in m.graph.node:
        if n.op_type == "BatchNormalization" and attr(n, "training_mode", 0) and len(n.output) > 1 and n.output[0] in live \
                and not any(o in live for o in n.output[1:] if o):
            return True
    return False


def ir_version_lt4(case):
    """IR version < 4 requires every initializer to be listed among the graph inputs; the optimizer adds initializers without inputs."""
    return M(case).ir_version < 4


def value_name_defined_in_several_scopes(case):
    """The same value name is defined (node output or initializer) in two or more graphs of the model - legal in ONNX for disjoint
    scopes (sibling If branches, branches of different Ifs).  Inlining a constant-condition If then brings both definitions into one graph."""
    from collections import Counter

    seen = Counter()

    def walk(g):
        for i in g.initializer:
            seen[i.name] += 1
        for n in g.node:
            for o in n.output:
                if o:
                    seen[o] += 1
            for a in n.attribute:
                if a.type == onnx.AttributeProto.GRAPH:
                    walk(a.g)

    walk(M(case).graph)
    return any(v > 1 for v in seen.values())


def cse_drops_output_type(case):
    """onnx_ir's CommonSubexpressionEliminationPass (last stage of optimize_ir, outside /repo) merges a typed graph output with an untyped
    duplicate and keeps the untyped value: the output loses its declared type.  Semantic predicate: with that pass replaced by a no-op the
    same call on the same model yields no verdict of this kind."""
    import onnx_ir.passes.common as cp

    from vf.props import C04

    m = M(case)
    kinds = ("invalid:checker", "signature:outputs-elemtype")
    v1, _ = C04.check(m, case["opts"], [], False)
    if not any(b.startswith(kinds) for b, _ in v1):
        return False
    orig = cp.CommonSubexpressionEliminationPass.call
    try:
        cp.CommonSubexpressionEliminationPass.call = lambda self, model: ir_pass_result(model)
        v2, _ = C04.check(m, case["opts"], [], False)
    finally:
        cp.CommonSubexpressionEliminationPass.call = orig
    return not any(b.startswith(kinds) for b, _ in v2)


def ir_pass_result(model):
    import onnx_ir as ir

    return ir.passes.PassResult(model, modified=False)


REGIONS = dict(C05_REGIONS)
REGIONS["cse_drops_output_type"] = cse_drops_output_type
REGIONS["value_name_defined_in_several_scopes"] = value_name_defined_in_several_scopes
REGIONS["ir_version_lt4"] = ir_version_lt4
REGIONS["bn_training_mode_unused_stats"] = bn_training_mode_unused_stats


def bn_training_and_inverted_clip_chain(case):
    """Two recorded findings in one model, each hiding the other from its own predicate: a training-mode BatchNormalization whose
    statistics reach the outputs only through nodes that constant folding removes (after which onnx_ir's dead-output removal pops
    training_mode, see bn_training_mode_unused_stats), and a Clip(Clip(x)) chain with an inverted interval (clip_chain_disjoint_or_inverted)."""
    m = M(case)
    return any(n.op_type == "BatchNormalization" and attr(n, "training_mode", 0) for n in m.graph.node) and _clip_chain_order_matters(m)


REGIONS["bn_training_and_inverted_clip_chain"] = bn_training_and_inverted_clip_chain
REGIONS["reduces_to_known_rule_finding"] = reduces_to_known_rule_finding
