"""Worker for C14: reads a JSON list of operations on stdin, executes them in order in THIS process and prints one JSON
list of results (sha256 of the serialised result, or 'EXC:<type>').  Started by vf/props/C14.py with a chosen PYTHONHASHSEED."""
import base64
import hashlib
import json
import logging
import sys
import warnings

warnings.filterwarnings("ignore")
logging.disable(logging.WARNING)


def digest(b):
    return hashlib.sha256(b).hexdigest()[:24]


def do(op):
    import onnx

    kind = op["kind"]
    if kind.startswith("script"):
        from vf import scriptgen

        extra = op.get("globals") or {}
        mod = scriptgen.compile_source(op["source"], op.get("opset", 18), extra_globals=dict(extra))
        fn = getattr(mod, op["name"])

        def protos():
            out = [fn.to_function_proto().SerializeToString()]
            try:
                out.append(fn.to_model_proto().SerializeToString())
            except Exception as e:  # noqa: BLE001
                out.append(("EXC:" + type(e).__name__).encode())
            return out

        first = protos()
        res = {"d": digest(b"|".join(first))}
        if kind == "script_repeat":
            ir_before = str(fn.function_ir.graph)
            again = [protos() for _ in range(2)]
            res["repeat_equal"] = all(a == first for a in again)
            res["function_ir_unchanged"] = str(fn.function_ir.graph) == ir_before
        if kind == "script_mutate_globals":
            for k, v in (op.get("mutate") or {}).items():
                mod.__dict__[k] = v
            res["after_mutation_equal"] = protos() == first
        return res
    model = onnx.load_from_string(base64.b64decode(op["model"]))
    if op.get("reopset"):  # history only: the same graph declared under another opset
        for imp in model.opset_import:
            if imp.domain in ("", "ai.onnx"):
                imp.version = int(op["reopset"])
    if kind == "optimize":
        import onnxscript.optimizer as opt

        return {"d": digest(opt.optimize(model, **op.get("opts", {})).SerializeToString())}
    if kind == "optimize_ir":
        import onnxscript.optimizer as opt
        from onnxscript import ir

        mi = ir.serde.deserialize_model(model)
        opt.optimize_ir(mi, **op.get("opts", {}))
        return {"d": digest(ir.serde.serialize_model(mi).SerializeToString())}
    if kind == "rewrite":
        import onnxscript.rewriter as rw

        return {"d": digest(rw.rewrite(model).SerializeToString())}
    if kind == "fold":
        import onnxscript.optimizer as opt

        opt.fold_constants(model, onnx_shape_inference=bool(op.get("si")))
        return {"d": digest(model.SerializeToString())}
    if kind == "convert":
        import onnxscript.version_converter as vc

        vc.convert_version(model, op["target"], fallback=op.get("fallback", False))
        return {"d": digest(model.SerializeToString())}
    if kind == "bad_pattern":
        # a pattern constructor that raises inside pattern_builder / a rule whose check stashes state then fails
        from onnxscript.rewriter import pattern

        def pat(op_, x):
            raise RuntimeError("boom inside pattern")

        try:
            pattern.RewriteRule(pat, lambda op_, x: op_.Identity(x))
        except RuntimeError:
            pass
        return {"d": "bad_pattern_done"}
    raise ValueError(kind)


def main():
    ops = json.load(sys.stdin)
    out = []
    for op in ops:
        try:
            out.append(do(op))
        except BaseException as e:  # noqa: BLE001
            out.append({"d": "EXC:" + type(e).__name__})
    print("C14RESULT" + json.dumps(out))


if __name__ == "__main__":
    main()
