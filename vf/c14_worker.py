"""Worker for C14: reads a JSON list of operations on stdin, executes them in order in THIS process and prints one JSON
list of results (sha256 of the serialised result, or 'EXC:<type>').  Started by vf/props/C14.py with a chosen PYTHONHASHSEED."""
import base64
import hashlib
import json
import logging
import sys
import warnings

warnings.filterwarnings("ignore")
logging.disable(logging.WARNING)


def digest(b):
    return hashlib.sha256(b).hexdigest()[:24]


_FOLD_PASSES = {}


def _shared_fold_pass(si):
    from onnxscript.optimizer import _constant_folding as cf

    if si not in _FOLD_PASSES:
        _FOLD_PASSES[si] = cf.FoldConstantsPass(shape_inference=si, input_size_limit=cf.DEFAULT_CONSTANT_FOLD_INPUT_SIZE_LIMIT,
                                                output_size_limit=cf.DEFAULT_CONSTANT_FOLD_OUTPUT_SIZE_LIMIT)
    return _FOLD_PASSES[si]


def do(op):
    import onnx

    kind = op["kind"]
    if kind.startswith("script"):
        from vf import scriptgen

        import numpy as np

        extra = dict(op.get("globals") or {})
        for k, v in (op.get("globals_np") or {}).items():  # module globals that are numpy arrays (mutated IN PLACE below)
            extra[k] = np.asarray(v[0], dtype=v[1])
        mod = scriptgen.compile_source(op["source"], op.get("opset", 18), extra_globals=dict(extra))
        fn = getattr(mod, op["name"])

        def eager():
            if not op.get("eager_input"):
                return None
            try:
                r = fn(np.asarray(op["eager_input"], dtype=np.float32))
                r = r if isinstance(r, (list, tuple)) else [r]
                return [np.asarray(getattr(x, "value", x)).tolist() for x in r]
            except Exception as e:  # noqa: BLE001
                return "EXC:" + type(e).__name__

        def protos():
            out = [fn.to_function_proto().SerializeToString()]
            try:
                out.append(fn.to_model_proto().SerializeToString())
            except Exception as e:  # noqa: BLE001
                out.append(("EXC:" + type(e).__name__).encode())
            return out

        first = protos()
        res = {"d": digest(b"|".join(first))}
        if kind == "script_repeat":
            ir_before = str(fn.function_ir.graph)
            again = [protos() for _ in range(2)]
            res["repeat_equal"] = all(a == first for a in again)
            res["function_ir_unchanged"] = str(fn.function_ir.graph) == ir_before
        if kind == "script_mutate_globals":
            e0 = eager()
            for k, v in (op.get("mutate") or {}).items():
                mod.__dict__[k] = v
            for k, (idx, val) in (op.get("mutate_inplace") or {}).items():
                mod.__dict__[k][idx] = val  # the array object that the script captured is modified in place
            res["after_mutation_equal"] = protos() == first
            if e0 is not None and not isinstance(e0, str):
                res["eager_after_mutation_equal"] = eager() == e0
        return res
    if kind == "rewrite_custom":
        # a user rule whose replacement uses operators of several domains the model does not import yet (set iteration order of the
        # new imports), applied in the main graph, inside an If branch or inside a model-local function
        from onnx import TensorProto as TP
        from onnx import helper

        from onnxscript.rewriter import pattern
        from onnxscript.rewriter import rewrite as rw

        doms = [(d, v) for d, v in op["domains"]]

        def tgt(op_, x):
            return op_.Neg(op_.Abs(x))

        def rep(op_, x):
            for i, (d, v) in enumerate(doms):
                x = getattr(op_, f"Custom{i}")(x, _domain=d, _version=v)
            return x

        rule = pattern.RewriteRule(tgt, rep, as_function=bool(op.get("as_function")))
        body = [helper.make_node("Abs", ["x"], ["t"]), helper.make_node("Neg", ["t"], ["y"])]
        fx = helper.make_tensor_value_info("x", TP.FLOAT, [3])
        fy = helper.make_tensor_value_info("y", TP.FLOAT, [3])
        functions = []
        where = op.get("where", "main")
        if where == "main":
            g = helper.make_graph(body, "g", [fx], [fy])
        elif where == "if":
            br = lambda n: helper.make_graph([helper.make_node("Abs", ["x"], [n + "t"]), helper.make_node("Neg", [n + "t"], [n + "y"])], n, [], [helper.make_tensor_value_info(n + "y", TP.FLOAT, [3])])  # noqa: E731
            g = helper.make_graph([helper.make_node("If", ["c"], ["y"], then_branch=br("a"), else_branch=br("b"))], "g",
                                  [helper.make_tensor_value_info("c", TP.BOOL, []), fx], [fy])
        else:
            functions = [helper.make_function("local", "F", ["x"], ["y"], body, [helper.make_opsetid("", 18)])]
            g = helper.make_graph([helper.make_node("F", ["x"], ["y"], domain="local")], "g", [fx], [fy])
        m = helper.make_model(g, opset_imports=[helper.make_opsetid("", 18)] + ([helper.make_opsetid("local", 1)] if functions else []), functions=functions, ir_version=8)
        return {"d": digest(rw(m, [rule]).SerializeToString())}
    if kind == "bad_fold":
        # history only: the shared FoldConstantsPass object raises on this model after it has already folded Add(c1, c2)
        # (Gather of index 5 from the shape of a rank-2 tensor): whatever the pass keeps must not reach the next model
        from onnx import TensorProto as TP
        from onnx import helper as oh

        from onnxscript import ir

        nodes = [oh.make_node("Constant", [], ["c1"], value=oh.make_tensor("c1", TP.FLOAT, [2], [1.0, 2.0])),
                 oh.make_node("Constant", [], ["c2"], value=oh.make_tensor("c2", TP.FLOAT, [2], [3.0, 4.0])),
                 oh.make_node("Add", ["c1", "c2"], ["s"]), oh.make_node("Mul", ["x", "s"], ["y"]), oh.make_node("Shape", ["x"], ["shp"]),
                 oh.make_node("Constant", [], ["idx"], value=oh.make_tensor("idx", TP.INT64, [1], [5])), oh.make_node("Gather", ["shp", "idx"], ["g"], axis=0)]
        g = oh.make_graph(nodes, "failing", [oh.make_tensor_value_info("x", TP.FLOAT, ["N", 2])],
                          [oh.make_tensor_value_info("y", TP.FLOAT, ["N", 2]), oh.make_tensor_value_info("g", TP.INT64, [1])])
        m = oh.make_model(g, opset_imports=[oh.make_opsetid("", 18)], ir_version=10)
        try:
            _shared_fold_pass(bool(op.get("si")))(ir.serde.deserialize_model(m))
            return {"d": "bad_fold_did_not_raise"}
        except Exception as e:  # noqa: BLE001
            return {"d": "bad_fold_raised:" + type(e).__name__}
    if kind == "bad_pattern":
        # a pattern constructor that raises inside pattern_builder / a rule whose check stashes state then fails
        from onnxscript.rewriter import pattern

        def pat(op_, x):
            raise RuntimeError("boom inside pattern")

        try:
            pattern.RewriteRule(pat, lambda op_, x: op_.Identity(x))
        except RuntimeError:
            pass
        return {"d": "bad_pattern_done"}
    model = onnx.load_from_string(base64.b64decode(op["model"]))
    if op.get("reopset"):  # history only: the same graph declared under another opset
        for imp in model.opset_import:
            if imp.domain in ("", "ai.onnx"):
                imp.version = int(op["reopset"])
    if kind == "optimize":
        import onnxscript.optimizer as opt

        return {"d": digest(opt.optimize(model, **op.get("opts", {})).SerializeToString())}
    if kind == "optimize_ir":
        import onnxscript.optimizer as opt
        from onnxscript import ir

        mi = ir.serde.deserialize_model(model)
        opt.optimize_ir(mi, **op.get("opts", {}))
        return {"d": digest(ir.serde.serialize_model(mi).SerializeToString())}
    if kind == "rewrite":
        import onnxscript.rewriter as rw

        return {"d": digest(rw.rewrite(model).SerializeToString())}
    if kind == "fold_obj":
        # ONE FoldConstantsPass object per process (per shape-inference flag), applied to every model that asks for it
        from onnxscript import ir

        mi = ir.serde.deserialize_model(model)
        r = _shared_fold_pass(bool(op.get("si")))(mi)
        return {"d": digest(ir.serde.serialize_model(r.model).SerializeToString() + (b"|modified" if r.modified else b"|unmodified"))}
    if kind == "fold":
        import onnxscript.optimizer as opt

        opt.fold_constants(model, onnx_shape_inference=bool(op.get("si")))
        return {"d": digest(model.SerializeToString())}
    if kind == "convert":
        import onnxscript.version_converter as vc

        vc.convert_version(model, op["target"], fallback=op.get("fallback", False))
        return {"d": digest(model.SerializeToString())}
    raise ValueError(kind)


def main():
    ops = json.load(sys.stdin)
    out = []
    for op in ops:
        try:
            out.append(do(op))
        except BaseException as e:  # noqa: BLE001
            out.append({"d": "EXC:" + type(e).__name__})
    print("C14RESULT" + json.dumps(out))


if __name__ == "__main__":
    main()
