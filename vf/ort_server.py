"""Child process that owns onnxruntime: a segfault/abort inside ORT then kills only this process, not the check worker.
Protocol (pickle over stdin/stdout): ("load", key, model_bytes) | ("run", key, feeds) | ("drop", key)."""
import pickle
import sys


def main():
    import numpy as np  # noqa: F401
    import onnxruntime as ort

    ort.set_default_logger_severity(4)
    inp, out = sys.stdin.buffer, sys.stdout.buffer
    sessions = {}
    while True:
        try:
            msg = pickle.load(inp)
        except EOFError:
            return
        try:
            if msg[0] == "load":
                so = ort.SessionOptions()
                so.graph_optimization_level = ort.GraphOptimizationLevel.ORT_DISABLE_ALL
                so.intra_op_num_threads = 1
                so.inter_op_num_threads = 1
                so.log_severity_level = 4
                s = ort.InferenceSession(msg[2], so, providers=["CPUExecutionProvider"])
                sessions[msg[1]] = s
                if len(sessions) > 64:
                    sessions.pop(next(iter(sessions)))
                res = ("ok", None)
            elif msg[0] == "run":
                s = sessions.get(msg[1])
                if s is None:
                    res = ("err", "session dropped")
                else:
                    names = {i.name for i in s.get_inputs()} | {i.name for i in s.get_overridable_initializers()}
                    r = s.run(None, {k: v for k, v in msg[2].items() if k in names})
                    nbytes = sum(getattr(x, "nbytes", 0) for x in r)
                    # (a result of hundreds of MB - shapes computed from data - would take minutes to pickle through the pipe)
                    res = ("ok", r) if nbytes <= 64 * 1024 * 1024 else ("err", f"ResultTooLarge: {nbytes} bytes of outputs (not transferred)")
            elif msg[0] == "drop":
                sessions.pop(msg[1], None)
                continue
            else:
                res = ("err", "bad message")
        except Exception as e:  # noqa: BLE001
            res = ("err", f"{type(e).__name__}: {str(e)[:300]}")
        try:
            pickle.dump(res, out, protocol=pickle.HIGHEST_PROTOCOL)
        except Exception as e:  # noqa: BLE001  (unpicklable output, e.g. sparse)
            pickle.dump(("err", f"unpicklable result: {e}"), out)
        out.flush()


if __name__ == "__main__":
    main()
