"""Hypothesis glue: seeded settings; collect-don't-raise driving; optional shrink of one bucket."""
from __future__ import annotations

import hypothesis
from hypothesis import HealthCheck, Phase, given, seed, settings
from hypothesis import strategies as st


def make_settings(n, shrink=False):
    return settings(
        max_examples=max(1, int(n)),
        database=None,
        deadline=None,
        derandomize=False,
        report_multiple_bugs=False,
        suppress_health_check=list(HealthCheck),
        phases=[Phase.generate, Phase.shrink] if shrink else [Phase.generate],
        print_blob=False,
        verbosity=hypothesis.Verbosity.quiet,
    )


TIMEOUTS = [0]  # cases abandoned by the per-case watchdog (inconclusive, never a violation)


class CaseTimeout(BaseException):
    pass


TIMEOUT_WHERE = []  # innermost frames at the moment the watchdog fired (diagnostic, goes to the evidence file)


def _alarm(signum, frame):
    import traceback

    try:
        fr = traceback.extract_stack(frame)[-6:]
        TIMEOUT_WHERE.append(" < ".join(f"{f.filename.rsplit('/', 2)[-1]}:{f.lineno}:{f.name}" for f in reversed(fr)))
    except Exception:  # noqa: BLE001
        pass
    raise CaseTimeout()


def drive(strategy, body, n, seed_value, case_timeout=None):
    """Run body(case) on n generated cases.  body must not raise on a violation (it records).
    A per-case watchdog (SIGALRM, main thread of the worker) abandons a case that hangs: counted, inconclusive."""
    import os
    import signal
    import threading

    limit = int(case_timeout or os.environ.get("VERIF_CASE_TIMEOUT", "60"))
    use_alarm = threading.current_thread() is threading.main_thread() and hasattr(signal, "SIGALRM")
    if use_alarm:
        signal.signal(signal.SIGALRM, _alarm)

    @seed(seed_value)
    @make_settings(n)
    @given(strategy)
    def _t(case):
        if use_alarm:
            signal.alarm(limit)
        try:
            body(case)
        except CaseTimeout:
            TIMEOUTS[0] += 1
        finally:
            if use_alarm:
                signal.alarm(0)

    _t()


class _Found(Exception):
    pass


def shrink(strategy, failing, n, seed_value):
    """Re-run the same seeded test raising whenever failing(case) is true; Hypothesis shrinks.
    Returns the minimal failing case or None."""
    last = {}

    @seed(seed_value)
    @make_settings(n, shrink=True)
    @given(strategy)
    def _t(case):
        if failing(case):
            last["case"] = case
            raise _Found()

    try:
        _t()
    except _Found:
        return last.get("case")
    except Exception:
        return last.get("case")
    return None


def run_machine(machine_cls, n, steps, seed_value):
    from hypothesis.stateful import run_state_machine_as_test

    s = settings(make_settings(n), stateful_step_count=steps)
    run_state_machine_as_test(seed(seed_value)(machine_cls), settings=s)


__all__ = ["st", "drive", "shrink", "run_machine", "make_settings"]
