"""Shared pieces of C03 / C04 / C09: applying an optimizer API under drawn options, case (de)serialisation."""
from __future__ import annotations

import base64
import io
import traceback

import numpy as np
import onnx

from vf.hyp import st


# ----------------------------------------------------------------------------- array <-> json
def arr_to_json(a):
    a = np.asarray(a)
    buf = io.BytesIO()
    np.save(buf, a, allow_pickle=False)
    return {"npy": base64.b64encode(buf.getvalue()).decode(), "repr": f"{a.dtype}{list(a.shape)} {a.ravel()[:8].tolist()}"}


def arr_from_json(d):
    return np.load(io.BytesIO(base64.b64decode(d["npy"])), allow_pickle=False)


def feeds_to_json(feeds):
    return {k: arr_to_json(v) for k, v in feeds.items()}


def feeds_from_json(d):
    return {k: arr_from_json(v) for k, v in d.items()}


def model_to_json(model):
    return base64.b64encode(model.SerializeToString()).decode()


def model_from_json(s):
    return onnx.load_from_string(base64.b64decode(s))


# ----------------------------------------------------------------------------- options
APIS = ["optimize", "optimize", "optimize", "optimize_ir", "fold_constants", "fold_constants_si", "remove_unused_nodes", "rewrite"]


@st.composite
def option_tuples(draw, apis=APIS):
    api = draw(st.sampled_from(apis))
    o = {"api": api, "entry": draw(st.sampled_from(["proto", "proto", "ir"]))}
    if api in ("optimize", "optimize_ir"):
        if draw(st.integers(0, 2)):
            o["num_iterations"] = draw(st.sampled_from([1, 2, 3]))
        if draw(st.integers(0, 2)) == 0:
            o["onnx_shape_inference"] = False
        if draw(st.integers(0, 3)) == 0:
            o["inline"] = False
        if draw(st.integers(0, 3)) == 0:
            o["stop_if_no_change"] = False
    if api in ("optimize", "optimize_ir", "fold_constants", "fold_constants_si"):
        k = draw(st.integers(0, 5))
        if k == 0:
            o["input_size_limit"] = draw(st.sampled_from([0, 4]))
        elif k == 1:
            o["output_size_limit"] = draw(st.sampled_from([0, 4]))
    return o


def apply_api(model: onnx.ModelProto, o):
    """Apply the API described by o to a *copy* of model.  Returns ("ok", ModelProto) or ("raise", text, frame)."""
    import onnxscript.optimizer as opt
    import onnxscript.rewriter as rw
    from onnxscript import ir

    m = onnx.ModelProto()
    m.CopyFrom(model)
    kw = {k: v for k, v in o.items() if k not in ("api", "entry")}
    api = o["api"]
    try:
        if o.get("entry") == "ir" or api == "optimize_ir":
            mi = ir.serde.deserialize_model(m)
            if api == "optimize":
                out = opt.optimize(mi, **kw)
            elif api == "optimize_ir":
                opt.optimize_ir(mi, **kw)
                out = mi
            elif api == "fold_constants":
                opt.fold_constants(mi, **kw)
                out = mi
            elif api == "fold_constants_si":
                opt.fold_constants(mi, onnx_shape_inference=True, **kw)
                out = mi
            elif api == "remove_unused_nodes":
                opt.remove_unused_nodes(mi)
                out = mi
            elif api == "rewrite":
                out = rw.rewrite(mi)
            else:
                raise ValueError(api)
            return ("ok", ir.serde.serialize_model(out))
        if api == "optimize":
            return ("ok", opt.optimize(m, **kw))
        if api == "fold_constants":
            opt.fold_constants(m, **kw)
            return ("ok", m)
        if api == "fold_constants_si":
            opt.fold_constants(m, onnx_shape_inference=True, **kw)
            return ("ok", m)
        if api == "remove_unused_nodes":
            opt.remove_unused_nodes(m)
            return ("ok", m)
        if api == "rewrite":
            return ("ok", rw.rewrite(m))
        raise ValueError(api)
    except Exception as e:  # noqa: BLE001
        return ("raise", f"{type(e).__name__}: {str(e)[:300]}", innermost_frame(e))


def innermost_frame(e):
    """(exception type, innermost frame inside onnxscript/ or onnx_ir) as a root-cause key."""
    tb = traceback.extract_tb(e.__traceback__)
    cause = e
    while cause.__cause__ is not None:
        cause = cause.__cause__
    if cause is not e:
        tb = traceback.extract_tb(cause.__traceback__) or tb
    frame = None
    for fr in tb:  # the innermost frame of the code under test (onnxscript); failing that, of onnx_ir; failing that, the innermost frame
        if "/onnxscript/" in fr.filename:
            frame = fr
    if frame is None:
        for fr in tb:
            if "onnx_ir" in fr.filename:
                frame = fr
    if frame is None and tb:
        frame = tb[-1]
    where = f"{frame.filename.split('/')[-1]}:{frame.name}" if frame else "?"
    return f"{type(cause).__name__}@{where}"


def op_multiset(model):
    from collections import Counter

    c = Counter()

    def walk(g):
        for n in g.node:
            c[(n.domain, n.op_type)] += 1
            for a in n.attribute:
                if a.type == onnx.AttributeProto.GRAPH:
                    walk(a.g)
                for sg in a.graphs:
                    walk(sg)

    walk(model.graph)
    for f in model.functions:
        for n in f.node:
            c[("fn:" + f.name, n.op_type)] += 1
    return c


def folded_or_rewritten(before, after):
    return op_multiset(before) != op_multiset(after)
