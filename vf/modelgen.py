"""Typed random ONNX models *by concrete execution* (DESIGN 2.1).

The generator keeps an environment name -> (dtype, sample array) for one sample binding of the
inputs and grows the graph node by node.  Every candidate node is evaluated immediately with the
onnx.reference kernel; a node whose evaluation raises is dropped locally (counted).  All random
choices are Hypothesis draws; tensor payloads are pure functions of drawn integer seeds.
"""
from __future__ import annotations

import dataclasses
from typing import Any

import numpy as np
import onnx
from onnx import TensorProto, helper, numpy_helper
from onnx.reference import ReferenceEvaluator

from vf.hyp import st

F32, F64, I32, I64, BOOL, F16, U8 = (np.dtype(x) for x in ("float32", "float64", "int32", "int64", "bool", "float16", "uint8"))
FLOATS = (F32, F64, F16)
INTS = (I32, I64)
NUMERIC = (F32, F64, I32, I64)

OPSET_IR = {9: 4, 10: 5, 11: 6, 12: 7, 13: 7, 14: 7, 15: 8, 16: 8, 17: 8, 18: 8, 19: 9, 20: 9, 21: 10, 22: 10, 23: 11}

EDGE_F = [0.0, -0.0, 1.0, -1.0, 0.5, -0.5, 2.0, -2.0, 3.0, -3.0, 1e-9, -1e-9, 1e4, -1e4, 7.25, 0.1]
EDGE_I = [0, 1, -1, 2, -2, 3, -3, 7, 100, -100]


def np2onnx(dt):
    return helper.np_dtype_to_tensor_dtype(np.dtype(dt))


def make_array(seed: int, dtype, shape, style: str = "mixed"):
    """Deterministic tensor from a drawn integer seed.  style: mixed | edge | smallint | positive | unit."""
    rng = np.random.default_rng(seed)
    dtype = np.dtype(dtype)
    n = int(np.prod(shape)) if len(shape) else 1
    if dtype == BOOL:
        a = rng.integers(0, 2, size=n).astype(bool)
    elif dtype.kind in "iu":
        if style == "edge":
            a = rng.choice(np.array(EDGE_I if dtype.kind == "i" else [0, 1, 2, 3, 7, 100, 255]), size=n)
        elif style == "positive":
            a = rng.integers(1, 5, size=n)
        else:
            a = rng.integers(-4 if dtype.kind == "i" else 0, 5, size=n)
        a = a.astype(dtype)
    else:
        if style == "edge":
            a = rng.choice(np.array(EDGE_F), size=n)
        elif style == "smallint":
            a = rng.integers(-3, 4, size=n).astype(np.float64)
        elif style == "positive":
            a = rng.uniform(0.25, 3.0, size=n)
        elif style == "unit":
            a = rng.uniform(-1.0, 1.0, size=n)
        else:
            a = rng.normal(0, 2.0, size=n)
            m = rng.random(n) < 0.3
            a = np.where(m, rng.choice(np.array(EDGE_F), size=n), a)
        a = a.astype(dtype)
    return a.reshape(shape)


@dataclasses.dataclass
class Val:
    name: str
    arr: Any  # numpy array (sample) or list of arrays for sequences
    kind: str  # input | init | ovinit | const | node | outer
    shape_like: bool = False  # small 1-D int64 usable as a shape

    @property
    def dtype(self):
        return self.arr.dtype

    @property
    def shape(self):
        return self.arr.shape

    @property
    def rank(self):
        return self.arr.ndim


NAME_POOL_WEIRD = ["a.b", "a_b", "1x", "x.1", "if", "for", "val_0", "val_1", "x/y", "out.0", "class", "a.b.c", "a_b_c", "lambda", "in", "x:0", "node_output_0"]


class Gen:
    def __init__(self, draw, cfg):
        self.draw = draw
        self.cfg = cfg
        self.opset = cfg.get("opset") or draw(st.sampled_from([13, 14, 17, 18, 18, 18, 19, 20, 21, 22, 23]))
        self.nodes = []
        self.inits = []
        self.inputs = []  # (Val, declared dims)
        self.env: list[Val] = []
        self.outer: list[Val] = cfg.get("outer", [])
        self.counter = cfg.get("counter", [0])
        self.features = set()
        self.dropped = 0
        self.functions = {}
        self.value_types = {}  # name -> (dtype, shape) for value_info
        self.used_names = cfg.get("used_names", set())
        self.weird = cfg.get("weird_names", False)
        self.depth = cfg.get("depth", 0)
        self.overridable = []  # names of initializer-inputs
        self.sym_sample = cfg.get("sym_sample", {})  # symbol -> sample size (symbolic mode)

    # ------------------------------------------------------------------ helpers
    def set_opset(self, version):
        """Planters may pin the host opset, but only while the graph is still empty."""
        if not self.nodes and not self.functions and self.depth == 0:
            self.opset = version
            return True
        return self.opset == version

    def fresh(self, hint="v"):
        if self.weird and self.draw(st.integers(0, 3)) == 0:
            cand = self.draw(st.sampled_from(NAME_POOL_WEIRD))
            if cand not in self.used_names:
                self.used_names.add(cand)
                return cand
        while True:
            self.counter[0] += 1
            n = f"{hint}{self.counter[0]}"
            if n not in self.used_names:
                self.used_names.add(n)
                return n

    def seed(self):
        return self.draw(st.integers(0, 2**31 - 1))

    def pick(self, seq):
        return self.draw(st.sampled_from(list(seq)))

    def chance(self, num, den=10):
        return self.draw(st.integers(0, den - 1)) < num

    def visible(self, pred=lambda v: True, allow_outer=True):
        vs = [v for v in self.env if isinstance(v.arr, np.ndarray) and pred(v)]
        if allow_outer:
            vs += [v for v in self.outer if isinstance(v.arr, np.ndarray) and pred(v)]
        return vs

    def pick_val(self, pred=lambda v: True):
        vs = self.visible(pred)
        if not vs:
            return None
        # bias towards recent values so chains grow
        if len(vs) > 3 and self.chance(5):
            vs = vs[-3:]
        return self.pick(vs)

    # ------------------------------------------------------------------ constants and inputs
    def add_input(self, dtype=None, shape=None, style=None, dims=None):
        """New graph input.  dims: declared dims (ints / symbolic names / None) if they should differ from the sample shape."""
        dtype = np.dtype(dtype or self.pick([F32, F32, F32, F32, F64, I64, I32, BOOL, F16]))
        if shape is None:
            rank = self.pick([0, 1, 1, 2, 2, 2, 3, 4])
            shape = tuple(self.pick([1, 2, 3, 4, 2, 3, 0 if self.cfg.get("zero_dims") and self.chance(1, 8) else 2]) for _ in range(rank))
        name = self.fresh("x")
        arr = make_array(self.seed(), dtype, shape, style or self.pick(["mixed", "edge", "smallint"]))
        if dims is None and self.cfg.get("symbolic") and len(shape):
            # declare some dims symbolically: named (possibly repeated when the sample sizes agree) or unnamed
            dims = []
            for d in shape:
                k = self.draw(st.integers(0, 5))
                if k <= 1:
                    dims.append(int(d))
                elif k == 2:
                    dims.append(None)
                else:
                    nm = self.pick(["N", "M", "K"])
                    prev = self.sym_sample.get(nm)
                    if prev is None or prev == d:
                        self.sym_sample[nm] = int(d)
                        dims.append(nm)
                    else:
                        dims.append(None)
        v = Val(name, arr, "input")
        self.env.append(v)
        self.inputs.append((v, list(dims) if dims is not None else list(shape)))
        if dims is not None and list(dims) != list(shape):
            self.features.add("symbolic_dims")
        self.features.add(f"in:{dtype.name}")
        return v

    def const_array(self, arr, how=None, shape_like=False):
        """Materialise an array as Constant node / initializer / overridable initializer."""
        arr = np.asarray(arr)
        choices = ["node", "node", "init", "init"]
        if self.cfg.get("overridable") and self.depth == 0:
            choices.append("ovinit")
        how = how or self.pick(choices)
        if self.depth > 0 and how == "ovinit":
            how = "init"
        if self.cfg.get("in_function"):
            how = "node"
        name = self.fresh("c")
        if how == "node":
            attr = None
            if arr.ndim == 0 and arr.dtype == F32 and self.chance(3):
                attr = {"value_float": float(arr)}
            elif arr.ndim == 0 and arr.dtype == I64 and self.chance(3):
                attr = {"value_int": int(arr)}
            elif arr.ndim == 1 and arr.dtype == I64 and arr.size > 0 and self.chance(3):
                attr = {"value_ints": [int(x) for x in arr]}
            elif arr.ndim == 1 and arr.dtype == F32 and arr.size > 0 and self.chance(3):
                attr = {"value_floats": [float(x) for x in arr]}
            if attr is None:
                attr = {"value": numpy_helper.from_array(arr, name=name + "_t")}
            self.nodes.append(helper.make_node("Constant", [], [name], **attr))
            self.features.add("const:node")
        else:
            self.inits.append(numpy_helper.from_array(arr, name=name))
            self.features.add("const:" + how)
            if how == "ovinit":
                self.overridable.append(name)
                self.inputs.append((Val(name, arr, "ovinit"), list(arr.shape)))
        v = Val(name, arr, "const" if how != "ovinit" else "ovinit", shape_like=shape_like)
        self.env.append(v)
        self.value_types[name] = (arr.dtype, arr.shape)
        return v

    def const_like(self, dtype, target_shape, style=None, exact_shape=False):
        """A constant broadcastable to target_shape."""
        rank = len(target_shape)
        if exact_shape:
            shape = tuple(target_shape)
        else:
            k = self.draw(st.integers(0, 5)) if not self.cfg.get("symbolic") else self.draw(st.integers(0, 2))
            if k == 0 or rank == 0:
                shape = ()
            elif k == 1:
                shape = (1,)
            elif k == 2:
                shape = (1,) * rank
            elif k == 3:
                shape = tuple(target_shape[-1:])
            elif k == 4:
                shape = tuple(target_shape)
            else:
                shape = tuple(d if self.chance(5) else 1 for d in target_shape)
        arr = make_array(self.seed(), dtype, shape, style or self.pick(["edge", "smallint", "mixed"]))
        return self.const_array(arr)

    # ------------------------------------------------------------------ node emission by concrete execution
    def emit(self, op, ins, n_out=1, domain="", subgraph_free=(), **attrs):
        """ins: list of Val | None.  Returns list[Val] or None if evaluation failed."""
        outs = [self.fresh("t") for _ in range(n_out)]
        node = helper.make_node(op, [v.name if v is not None else "" for v in ins], outs, domain=domain, **attrs)
        free = [v for v in ins if v is not None] + list(subgraph_free)
        res = eval_node(node, free, self.opset, self.functions)
        if res is None:
            self.dropped += 1
            for o in outs:
                self.used_names.discard(o)
            return None
        vals = []
        for o, r in zip(outs, res):
            if isinstance(r, np.ndarray) or np.isscalar(r):
                r = np.asarray(r)
                if r.dtype.kind == "f" and r.size and not np.all(np.isfinite(r)) and not self.cfg.get("allow_nonfinite", True):
                    self.dropped += 1
                    return None
                self.value_types[o] = (r.dtype, r.shape)
            vals.append(Val(o, r, "node"))
        self.nodes.append(node)
        self.env.extend(vals)
        self.features.add("op:" + op)
        return vals

    # ------------------------------------------------------------------ op generators
    def g_unary(self):
        v = self.pick_val(lambda v: v.dtype in FLOATS or v.dtype in INTS or v.dtype == BOOL)
        if v is None:
            return
        if v.dtype == BOOL:
            return self.emit("Not", [v])
        if v.dtype in INTS:
            return self.emit(self.pick(["Abs", "Neg", "Sign", "Identity", "Relu" if self.opset >= 14 else "Abs"]), [v])
        op = self.pick(["Abs", "Neg", "Relu", "Sigmoid", "Tanh", "Floor", "Ceil", "Round", "Sign", "Erf", "Softplus",
                        "Identity", "Sin", "Cos", "Exp", "Sqrt", "Reciprocal", "Softsign", "Elu", "LeakyRelu", "Selu",
                        "HardSigmoid", "IsNaN", "IsInf", "Atan", "Log"])
        if op in ("Erf", "Round", "Sign", "IsInf", "Softplus", "Softsign", "Sin", "Cos", "Atan", "Selu", "Elu", "HardSigmoid") and v.dtype == F16:
            op = "Neg"
        if op in ("Erf", "IsInf", "Atan", "Softsign", "Selu", "HardSigmoid", "Elu", "LeakyRelu") and v.dtype == F64:
            op = "Abs"
        if op in ("Sqrt", "Log"):
            a = self.emit("Abs", [v])
            if not a:
                return
            v = a[0]
        attrs = {}
        if op == "LeakyRelu" and self.chance(5):
            attrs["alpha"] = self.pick([0.1, 0.5, 2.0])
        if op == "Elu" and self.chance(5):
            attrs["alpha"] = self.pick([0.5, 2.0])
        return self.emit(op, [v], **attrs)

    def _second(self, v, dtype=None, nonzero=False):
        dtype = dtype or v.dtype
        if not nonzero and self.chance(5):
            cands = [w for w in self.visible(lambda w: w.dtype == dtype) if _broadcastable(v.shape, w.shape)]
            if cands:
                return self.pick(cands)
        if nonzero:
            arr = make_array(self.seed(), dtype, () if self.chance(5) else tuple(v.shape[-1:]), "positive")
            if self.chance(3) and dtype.kind != "u":
                arr = -arr
            return self.const_array(arr)
        return self.const_like(dtype, v.shape)

    def g_binary(self):
        v = self.pick_val(lambda v: v.dtype in NUMERIC or v.dtype == F16)
        if v is None:
            return
        op = self.pick(["Add", "Sub", "Mul", "Div", "Add", "Mul", "Min", "Max", "Pow", "Mod", "PRelu"])
        if v.dtype in INTS:
            if op in ("Div", "Mod"):
                w = self._second(v, nonzero=True)
                if op == "Mod" and self.chance(5):
                    return self.emit(op, [v, w], fmod=1)  # C-style remainder on integers (sign of the dividend)
                return self.emit(op, [v, w])
            if op in ("Pow", "PRelu"):
                op = "Add"
        if op == "Pow":
            e = self.const_array(np.asarray(self.pick([0, 1, 2, 3, 0.5, -1]), dtype=v.dtype))
            return self.emit("Pow", [v, e])
        if op == "Mod":
            w = self._second(v, nonzero=True)
            return self.emit("Mod", [v, w], fmod=1)
        if op == "PRelu":
            if v.dtype == F16:
                return
            slope = self.const_array(make_array(self.seed(), v.dtype, () if self.chance(5) else tuple(v.shape[-1:]), "unit"))
            return self.emit("PRelu", [v, slope])
        if op in ("Min", "Max") and v.dtype == F16 and self.opset < 12:
            op = "Add"
        w = self._second(v)
        ins = [v, w] if self.chance(7) else [w, v]
        return self.emit(op, ins)

    def g_compare(self):
        v = self.pick_val(lambda v: v.dtype in NUMERIC)
        if v is None:
            return
        op = self.pick(["Equal", "Less", "Greater", "LessOrEqual", "GreaterOrEqual"])
        w = self._second(v)
        return self.emit(op, [v, w] if self.chance(5) else [w, v])

    def g_logic(self):
        v = self.pick_val(lambda v: v.dtype == BOOL)
        if v is None:
            return self.g_compare()
        w = self._second(v)
        return self.emit(self.pick(["And", "Or", "Xor"]), [v, w])

    def g_where(self):
        c = self.pick_val(lambda v: v.dtype == BOOL)
        if c is None:
            r = self.g_compare()
            if not r:
                return
            c = r[0]
        x = self.pick_val(lambda v: v.dtype in NUMERIC and _broadcastable(v.shape, c.shape))
        if x is None:
            return
        y = self._second(x)
        if not _broadcastable(np.broadcast_shapes(x.shape, y.shape), c.shape):
            return
        return self.emit("Where", [c, x, y])

    def g_clip(self):
        v = self.pick_val(lambda v: v.dtype in (F32, F64) or (v.dtype in INTS and self.opset >= 12))
        if v is None:
            return
        lo = self.pick([None, -1, 0, -5, 1, 2])
        hi = self.pick([None, 1, 6, -1, 0, 3])
        mk = lambda x: None if x is None else self.const_array(np.asarray(x, dtype=v.dtype))  # noqa: E731
        ins = [v, mk(lo), mk(hi)]
        while ins and ins[-1] is None:
            ins.pop()
        self.features.add("clip:inverted" if (lo is not None and hi is not None and lo > hi) else "clip")
        return self.emit("Clip", ins)

    def g_variadic(self):
        v = self.pick_val(lambda v: v.dtype in (F32, F64))
        if v is None:
            return
        k = self.pick([1, 1, 2, 3])
        ins = [v] + [self._second(v) for _ in range(k - 1)]
        if k == 1:
            self.features.add("variadic:arity1")
        return self.emit(self.pick(["Sum", "Mean", "Min", "Max"]), ins)

    def g_cast(self):
        v = self.pick_val(lambda v: v.dtype in NUMERIC or v.dtype in (BOOL, F16))
        if v is None:
            return
        to = self.pick([F32, F64, I32, I64, BOOL, F16, F32])
        if v.dtype.kind == "f" and to.kind in "iu":
            # out-of-range / non-finite float -> int is undefined behaviour: keep values tame
            if v.arr.size and (not np.all(np.isfinite(v.arr)) or np.abs(v.arr).max() > 1e6):
                return
        if self.chance(3) and self.opset >= 15:
            like = self.pick_val(lambda w: w.dtype == to)
            if like is not None:
                return self.emit("CastLike", [v, like])
        return self.emit("Cast", [v], to=np2onnx(to))

    def g_reduce(self):
        v = self.pick_val(lambda v: v.dtype in (F32, F64, I64) and v.rank >= 1)
        if v is None:
            return
        op = self.pick(["ReduceSum", "ReduceMean", "ReduceMax", "ReduceMin", "ReduceProd", "ReduceL1", "ReduceL2", "ReduceSumSquare", "ReduceLogSumExp"])
        if v.dtype in INTS and op in ("ReduceMean", "ReduceL2", "ReduceLogSumExp", "ReduceL1"):
            op = "ReduceSum"
        keep = self.pick([0, 1])
        k = self.draw(st.integers(0, v.rank))
        axes = sorted(set(self.draw(st.integers(-v.rank, v.rank - 1)) for _ in range(k)))
        axes = _dedupe_axes(axes, v.rank)
        axes_as_input = (op == "ReduceSum" and self.opset >= 13) or self.opset >= 18
        attrs = {"keepdims": keep}
        if axes_as_input:
            ins = [v]
            if axes or self.chance(3):
                ins.append(self.const_array(np.asarray(axes, dtype=np.int64), shape_like=False))
                if not axes:
                    attrs["noop_with_empty_axes"] = self.pick([0, 1])
                    self.features.add("reduce:empty_axes")
            return self.emit(op, ins, **attrs)
        if axes:
            attrs["axes"] = axes
        return self.emit(op, [v], **attrs)

    def g_matmul(self):
        a = self.pick_val(lambda v: v.dtype in (F32, F64) and v.rank >= 1 and all(d > 0 for d in v.shape))
        if a is None:
            return
        k = a.shape[-1]
        n = self.pick([1, 2, 3])
        if self.chance(3) and a.rank == 2:
            # Gemm
            transA = self.pick([0, 0, 1])
            transB = self.pick([0, 1])
            m_, k_ = (a.shape[1], a.shape[0]) if transA else a.shape
            bshape = (n, k_) if transB else (k_, n)
            b = self.const_array(make_array(self.seed(), a.dtype, bshape, "smallint"), how=self.pick(["node", "init"]))
            ins = [a, b]
            if self.chance(6):
                cshape = self.pick([(), (n,), (1, n), (m_, n), (m_, 1)])
                ins.append(self.const_array(make_array(self.seed(), a.dtype, cshape, "smallint")))
            attrs = {}
            if transA:
                attrs["transA"] = 1
            if transB:
                attrs["transB"] = 1
            if self.chance(4):
                attrs["alpha"] = self.pick([0.5, 2.0, -1.0])
            if self.chance(4):
                attrs["beta"] = self.pick([0.5, 2.0, 0.0])
            return self.emit("Gemm", ins, **attrs)
        bshape = (k, n) if self.chance(7) else (k,)
        cands = [w for w in self.visible(lambda w: w.dtype == a.dtype and w.rank >= 1 and w.shape[0 if w.rank == 1 else -2] == k and w is not a)]
        if cands and self.chance(4):
            b = self.pick(cands)
        else:
            b = self.const_array(make_array(self.seed(), a.dtype, bshape, "smallint"))
        return self.emit("MatMul", [a, b])

    def g_transpose(self):
        v = self.pick_val(lambda v: v.rank >= 1 and v.dtype != BOOL or v.rank >= 2)
        if v is None:
            return
        if self.chance(2):
            return self.emit("Transpose", [v])
        perm = self.draw(st.permutations(list(range(v.rank))))
        return self.emit("Transpose", [v], perm=list(perm))

    def g_reshape(self):
        v = self.pick_val(lambda v: v.dtype != F16 or True)
        if v is None:
            return
        size = int(v.arr.size)
        mode = self.pick(["flat", "factor", "same", "zero", "flatten", "squeeze", "unsqueeze"])
        if mode == "flatten":
            axis = self.draw(st.integers(-v.rank, v.rank)) if v.rank else 0
            return self.emit("Flatten", [v], axis=axis)
        if mode == "squeeze":
            ones = [i for i, d in enumerate(v.shape) if d == 1]
            if not ones:
                mode = "unsqueeze"
            else:
                if self.chance(3):
                    return self.emit("Squeeze", [v])
                ax = [self.pick(ones)]
                if self.chance(5):
                    ax = [a - v.rank for a in ax]
                if self.opset >= 13:
                    return self.emit("Squeeze", [v, self.const_array(np.asarray(ax, dtype=np.int64))])
                return self.emit("Squeeze", [v], axes=ax)
        if mode == "unsqueeze":
            k = self.pick([1, 1, 2])
            newrank = v.rank + k
            ax = sorted(self.draw(st.lists(st.integers(0, newrank - 1), min_size=k, max_size=k, unique=True)))
            if self.chance(3):
                ax = [a - newrank for a in ax]
            if self.opset >= 13:
                return self.emit("Unsqueeze", [v, self.const_array(np.asarray(ax, dtype=np.int64))])
            return self.emit("Unsqueeze", [v], axes=ax)
        if mode == "flat":
            tgt = [-1] if self.chance(5) else [size]
        elif mode == "same":
            tgt = list(v.shape)
        elif mode == "zero" and v.rank >= 1 and size > 0:
            tgt = [0] + ([-1] if v.rank > 1 else [])
        else:
            tgt = _factor(size, self.draw(st.integers(0, 5)))
            if self.chance(4) and size > 0 and tgt:
                i = self.draw(st.integers(0, len(tgt) - 1))
                tgt[i] = -1
        attrs = {}
        if self.opset >= 14 and self.chance(2):
            attrs["allowzero"] = self.pick([0, 1])
            if attrs["allowzero"] == 1 and 0 in tgt and -1 in tgt:
                attrs["allowzero"] = 0
        shp = self.const_array(np.asarray(tgt, dtype=np.int64), shape_like=True)
        return self.emit("Reshape", [v, shp], **attrs)

    def g_expand(self):
        v = self.pick_val(lambda v: v.dtype in NUMERIC or v.dtype == BOOL)
        if v is None:
            return
        lead = self.pick([0, 0, 1, 2])
        tgt = [self.pick([1, 2]) for _ in range(lead)] + [d if d != 1 or self.chance(5) else self.pick([2, 3]) for d in v.shape]
        if self.chance(3) and tgt:
            tgt = [1 if self.chance(3) else t for t in tgt]  # 1 in the target keeps the operand dim
        return self.emit("Expand", [v, self.const_array(np.asarray(tgt, dtype=np.int64), shape_like=True)])

    def g_concat(self):
        v = self.pick_val(lambda v: v.rank >= 1)
        if self.cfg.get("zero_dims") and self.chance(2):
            # operands of size zero whose zero dimension is not necessarily the concat axis
            rank = self.pick([2, 2, 3])
            shp = [self.pick([1, 2, 3]) for _ in range(rank)]
            shp[self.draw(st.integers(0, rank - 1))] = 0
            dt = self.pick([F32, I64])
            if self.depth == 0 and self.chance(5):
                v = self.add_input(dt, tuple(shp))
            else:
                v = self.const_array(np.zeros(shp, dtype=dt))
            self.features.add("concat:zero_size_operand")
        if v is None:
            return
        axis = self.draw(st.integers(-v.rank, v.rank - 1))
        k = self.pick([1, 2, 2, 3])
        ins = [v]
        for _ in range(k - 1):
            a = axis % v.rank
            cands = [w for w in self.visible(lambda w: w.dtype == v.dtype and w.rank == v.rank and all(i == a or w.shape[i] == v.shape[i] for i in range(v.rank)))]
            if cands and self.chance(6):
                ins.append(self.pick(cands))
            else:
                shp = list(v.shape)
                shp[a] = self.pick([0, 1, 2])
                ins.append(self.const_array(make_array(self.seed(), v.dtype, tuple(shp), "smallint")))
        return self.emit("Concat", ins, axis=axis)

    def g_split(self):
        v = self.pick_val(lambda v: v.rank >= 1 and v.dtype in NUMERIC)
        if v is None:
            return
        axis = self.draw(st.integers(-v.rank, v.rank - 1))
        d = v.shape[axis]
        if d < 1:
            return
        k = self.pick([1, 2, 2, 3])
        if k > d:
            k = d
        mode = self.pick(["even", "sizes", "num"])
        if mode == "num" and self.opset >= 18:
            return self.emit("Split", [v], n_out=k, axis=axis, num_outputs=k)
        if mode == "sizes" or d % k != 0:
            cuts = sorted(self.draw(st.lists(st.integers(0, d), min_size=k - 1, max_size=k - 1)))
            sizes = [b - a for a, b in zip([0] + cuts, cuts + [d])]
            if self.opset >= 13:
                return self.emit("Split", [v, self.const_array(np.asarray(sizes, dtype=np.int64))], n_out=k, axis=axis)
            return self.emit("Split", [v], n_out=k, axis=axis, split=sizes)
        if self.opset >= 18:
            return self.emit("Split", [v], n_out=k, axis=axis, num_outputs=k)
        return self.emit("Split", [v], n_out=k, axis=axis)

    def g_slice(self):
        v = self.pick_val(lambda v: v.rank >= 1)
        if v is None:
            return
        naxes = self.draw(st.integers(1, v.rank))
        axes = self.draw(st.lists(st.integers(0, v.rank - 1), min_size=naxes, max_size=naxes, unique=True))
        starts, ends, steps = [], [], []
        for a in axes:
            d = v.shape[a]
            step = self.pick([1, 1, 1, 2, -1, -2])
            s = self.draw(st.integers(-d - 1, d + 1))
            e = self.pick([self.draw(st.integers(-d - 1, d + 1)), 2**31 - 1, 2**63 - 1, -(2**63) + 1 if step < 0 else d])
            starts.append(s)
            ends.append(e)
            steps.append(step)
        if self.chance(3):
            axes = [a - v.rank for a in axes]
        c = lambda x: self.const_array(np.asarray(x, dtype=np.int64))  # noqa: E731
        ins = [v, c(starts), c(ends)]
        full = self.chance(8)
        if full or any(s != 1 for s in steps) or sorted(axes) != list(range(len(axes))):
            ins.append(c(axes))
            if any(s != 1 for s in steps) or self.chance(5):
                ins.append(c(steps))
        elif len(axes) != v.rank:
            ins.append(c(axes))
        return self.emit("Slice", ins)

    def g_gather(self):
        v = self.pick_val(lambda v: v.rank >= 1 and all(d > 0 for d in v.shape))
        if v is None:
            return
        axis = self.draw(st.integers(-v.rank, v.rank - 1))
        d = v.shape[axis]
        ishape = self.pick([(), (1,), (2,), (2, 2)])
        idx = np.asarray(np.random.default_rng(self.seed()).integers(-d, d, size=ishape), dtype=self.pick([np.int64, np.int64, np.int32]))
        return self.emit("Gather", [v, self.const_array(idx)], axis=axis)

    def g_shape_chain(self):
        v = self.pick_val(lambda v: v.rank >= 1)
        if v is None:
            return
        self.features.add("shape_chain")
        attrs = {}
        if self.opset >= 15 and self.chance(3):
            s = self.draw(st.integers(-v.rank, v.rank - 1))
            attrs["start"] = s
            if self.chance(5):
                attrs["end"] = self.draw(st.integers(-v.rank, v.rank))
        r = self.emit("Shape", [v], **attrs)
        if not r:
            return
        shp = r[0]
        shp.shape_like = True
        kind = self.pick(["gather", "slice", "size", "concat_reshape", "expand", "cos", "arith", "cast"])
        if kind == "size":
            return self.emit("Size", [v])
        if shp.arr.size == 0:
            return
        if kind == "gather":
            i = self.draw(st.integers(-shp.arr.size, shp.arr.size - 1))
            idx = self.const_array(np.asarray(i if self.chance(5) else [i], dtype=np.int64))
            g = self.emit("Gather", [shp, idx], axis=0)
            if g and self.chance(5):
                w = self.pick_val(lambda w: w.dtype in (F32, I64))
                if w is not None:
                    c = self.emit("Cast", [g[0]], to=np2onnx(w.dtype))
                    if c and _broadcastable(c[0].shape, w.shape):
                        return self.emit(self.pick(["Mul", "Add"]), [w, c[0]])
            return g
        if kind == "slice":
            n = shp.arr.size
            s, e = sorted([self.draw(st.integers(0, n)), self.draw(st.integers(0, n))])
            c = lambda x: self.const_array(np.asarray(x, dtype=np.int64))  # noqa: E731
            return self.emit("Slice", [shp, c([s]), c([e])])
        if kind == "arith":
            one = self.const_array(np.asarray(self.pick([0, 1, 2]), dtype=np.int64))
            r2 = self.emit(self.pick(["Add", "Mul", "Sub", "Abs"]), [shp, one][: 1 if False else 2])
            return r2
        if kind == "cast":
            return self.emit("Cast", [shp], to=np2onnx(self.pick([F32, I32, I64])))
        if kind == "cos":
            attrs = {}
            if self.chance(6):
                dt = self.pick([F32, I64, F64, BOOL, I32])
                attrs["value"] = numpy_helper.from_array(make_array(self.seed(), dt, (1,), "smallint"))
            c = self.emit("ConstantOfShape", [shp], **attrs)
            return c
        if kind == "expand":
            w = self.pick_val(lambda w: _broadcastable(w.shape, tuple(shp.arr.tolist())) and w.dtype in NUMERIC)
            if w is None:
                return
            return self.emit("Expand", [w, shp])
        # concat_reshape: reshape v (or same-size value) to concat(shape pieces)
        if v.arr.size == 0:
            return
        if v.rank >= 2 and self.chance(6):
            c = lambda x: self.const_array(np.asarray(x, dtype=np.int64))  # noqa: E731
            head = self.emit("Slice", [shp, c([0]), c([1])])
            if not head:
                return
            tgt = self.emit("Concat", [head[0], c([-1])], axis=0)
        else:
            tgt = [shp]
        if not tgt:
            return
        w = self.pick_val(lambda w: w.arr.size == v.arr.size)
        return self.emit("Reshape", [w or v, tgt[0]])

    def g_softmax(self):
        v = self.pick_val(lambda v: v.dtype in (F32, F64) and v.rank >= 1)
        if v is None:
            return
        axis = self.draw(st.integers(-v.rank, v.rank - 1))
        op = self.pick(["Softmax", "LogSoftmax", "Softmax", "Hardmax"])
        if self.chance(3):
            return self.emit(op, [v])
        return self.emit(op, [v], axis=axis)

    def g_misc(self):
        kind = self.pick(["cumsum", "topk", "tile", "range", "dropout", "gatherelements", "scatternd", "argmax", "pad", "trilu", "eyelike"])
        if kind == "cumsum":
            v = self.pick_val(lambda v: v.dtype in (F32, F64, I64, I32) and v.rank >= 1)
            if v is None:
                return
            ax = self.const_array(np.asarray(self.draw(st.integers(-v.rank, v.rank - 1)), dtype=self.pick([np.int64, np.int32])))
            return self.emit("CumSum", [v, ax], exclusive=self.pick([0, 1]), reverse=self.pick([0, 1]))
        if kind == "topk":
            v = self.pick_val(lambda v: v.dtype in (F32, I64) and v.rank >= 1 and all(d > 0 for d in v.shape))
            if v is None:
                return
            axis = self.draw(st.integers(-v.rank, v.rank - 1))
            k = self.draw(st.integers(1, v.shape[axis]))
            # ties make index output runtime-dependent: use values only via a unique-valued input? keep values output only
            r = self.emit("TopK", [v, self.const_array(np.asarray([k], dtype=np.int64))], n_out=2, axis=axis, largest=self.pick([0, 1]))
            if r:
                self.env.remove(r[1])  # indices under ties are implementation-defined
            return r
        if kind == "tile":
            v = self.pick_val(lambda v: v.rank >= 1 and v.arr.size <= 16)
            if v is None:
                return
            reps = [self.pick([1, 2, 1, 0 if self.cfg.get("zero_dims") else 1]) for _ in range(v.rank)]
            return self.emit("Tile", [v, self.const_array(np.asarray(reps, dtype=np.int64))])
        if kind == "range":
            dt = self.pick([I64, F32, I32])
            s, l, d = self.pick([(0, 5, 1), (1, 7, 2), (5, 0, -1), (0, 0, 1), (2, 3, 5)])
            mk = lambda x: self.const_array(np.asarray(x, dtype=dt))  # noqa: E731
            return self.emit("Range", [mk(s), mk(l), mk(d)])
        if kind == "dropout":
            v = self.pick_val(lambda v: v.dtype in (F32, F64))
            if v is None:
                return
            nout = self.pick([1, 1, 2])
            if self.opset >= 12:
                ins = [v]
                form = self.pick(["bare", "ratio0", "ratio", "train_false", "ratio_absent_train_false"])
                if form == "ratio0":
                    ins.append(self.const_array(np.asarray(0.0, dtype=np.float32)))
                elif form == "ratio":
                    ins.append(self.const_array(np.asarray(0.5, dtype=np.float32)))
                elif form == "train_false":
                    # (the training flag is never an overridable initializer: overriding it with True makes the operator random)
                    ins += [self.const_array(np.asarray(0.5, dtype=np.float32)), self.const_array(np.asarray(False), how=self.pick(["node", "init"]))]
                elif form == "ratio_absent_train_false":
                    ins += [None, self.const_array(np.asarray(False), how=self.pick(["node", "init"]))]
                self.features.add("dropout:" + form)
                return self.emit("Dropout", ins, n_out=nout)
            return self.emit("Dropout", [v], n_out=nout, ratio=self.pick([0.0, 0.5]))
        if kind == "gatherelements":
            v = self.pick_val(lambda v: v.rank >= 1 and all(d > 0 for d in v.shape))
            if v is None:
                return
            axis = self.draw(st.integers(-v.rank, v.rank - 1))
            idx = np.random.default_rng(self.seed()).integers(-v.shape[axis], v.shape[axis], size=v.shape).astype(np.int64)
            return self.emit("GatherElements", [v, self.const_array(idx)], axis=axis)
        if kind == "scatternd":
            v = self.pick_val(lambda v: v.rank >= 1 and v.dtype in (F32, I64) and all(d > 0 for d in v.shape))
            if v is None:
                return
            n = v.shape[0]
            rows = self.draw(st.lists(st.integers(0, n - 1), min_size=1, max_size=n, unique=True))
            idx = np.asarray(rows, dtype=np.int64).reshape(-1, 1)
            upd = make_array(self.seed(), v.dtype, (len(rows),) + v.shape[1:], "smallint")
            attrs = {}
            if self.opset >= 16 and self.chance(3):
                attrs["reduction"] = self.pick(["add", "mul", "none"])
            return self.emit("ScatterND", [v, self.const_array(idx), self.const_array(upd)], **attrs)
        if kind == "argmax":
            v = self.pick_val(lambda v: v.dtype in (F32, I64) and v.rank >= 1 and all(d > 0 for d in v.shape) and _all_distinct(v.arr))
            if v is None:
                return
            return self.emit(self.pick(["ArgMax", "ArgMin"]), [v], axis=self.draw(st.integers(-v.rank, v.rank - 1)), keepdims=self.pick([0, 1]))
        if kind == "pad":
            v = self.pick_val(lambda v: v.dtype in (F32, F64, I64) and v.rank >= 1)
            if v is None:
                return
            pads = [self.pick([0, 0, 1, 2]) for _ in range(2 * v.rank)]
            ins = [v, self.const_array(np.asarray(pads, dtype=np.int64))]
            mode = self.pick(["constant", "constant", "edge", "reflect"])
            if mode == "reflect" and any(p >= d for p, d in zip(pads[: v.rank] + pads[v.rank:], list(v.shape) * 2)):
                mode = "constant"
            if mode == "edge" and any(d == 0 for d in v.shape):
                mode = "constant"
            if mode == "constant" and self.chance(5):
                ins.append(self.const_array(np.asarray(self.pick([0, 1, -2]), dtype=v.dtype)))
            return self.emit("Pad", ins, mode=mode)
        if kind == "trilu" and self.opset >= 14:
            v = self.pick_val(lambda v: v.dtype in (F32, I64) and v.rank >= 2)
            if v is None:
                return
            ins = [v]
            if self.chance(5):
                ins.append(self.const_array(np.asarray(self.pick([-1, 0, 1, 2]), dtype=np.int64)))
            return self.emit("Trilu", ins, upper=self.pick([0, 1]))
        if kind == "onehot":
            v = self.pick_val(lambda v: v.dtype == I64 and v.arr.size <= 8)
            if v is None:
                return
            depth = self.const_array(np.asarray(self.pick([2, 3]), dtype=np.int64))
            vals = self.const_array(np.asarray([0, 1], dtype=np.float32))
            return self.emit("OneHot", [v, depth, vals], axis=self.pick([-1, 0]))
        return None

    def g_sequence(self):
        v = self.pick_val(lambda v: v.dtype in (F32, I64) and v.rank >= 1)
        if v is None:
            return
        self.features.add("sequence")
        if self.chance(5):
            axis = self.draw(st.integers(-v.rank, v.rank - 1))
            if v.shape[axis] == 0:
                return
            outs = [self.fresh("seq")]
            d = v.shape[axis]
            form = self.pick(["bare", "scalar_even", "scalar_uneven", "vector", "scalar_runtime"])
            ins = [v.name]
            if form == "scalar_runtime":
                # a rank-0 split computed at run time (its shape is known, its value is not): k + 0 * ReduceSum(int64 input)
                src = self.pick_val(lambda w: w.dtype == I64 and w.kind == "input" and w.arr.size >= 1)
                if src is None and self.depth == 0 and len(self.inputs) < self.cfg.get("max_inputs", 4) + 1:
                    src = self.add_input(I64, (2,), style="smallint")
                k = self.pick([q for q in range(1, d + 1) if d % q == 0])
                r = self.emit("ReduceSum", [src], keepdims=0) if src is not None and self.opset >= 13 else None
                z = self.emit("Mul", [r[0], self.const_array(np.asarray(0, dtype=np.int64))]) if r else None
                s_ = self.emit("Add", [z[0], self.const_array(np.asarray(k, dtype=np.int64))]) if z else None
                if not s_ or s_[0].shape != ():
                    form = "bare"
                else:
                    ins.append(s_[0].name)
                    self.features.add("sequence:split_scalar_runtime")
            elif form != "bare":
                # split operand (constant in either form): a scalar chunk size that divides the axis or leaves a smaller last
                # chunk, or the list of chunk sizes. The folder turns these into Split + SequenceConstruct.
                if form == "scalar_even":
                    sizes = [k for k in range(1, d + 1) if d % k == 0]
                    sp = np.asarray(self.pick(sizes), dtype=np.int64)
                elif form == "scalar_uneven":
                    sizes = [k for k in range(2, d + 2) if d % k != 0]
                    sp = np.asarray(self.pick(sizes), dtype=np.int64) if sizes else np.asarray(d, dtype=np.int64)
                else:
                    cut = self.draw(st.integers(0, d))
                    sp = np.asarray(self.pick([[cut, d - cut], [d], [1] * d if d <= 4 else [d - 1, 1]]), dtype=np.int64)
                ins.append(self.const_array(sp, how=self.pick(["node", "init"])).name)
                self.features.add("sequence:split_" + form)
            keepdims = self.pick([0, 1])
            if form == "scalar_runtime":
                keepdims = 1
            elif form != "bare" and keepdims == 0:
                # ONNX: keepdims is ignored when `split` is given (onnx.reference and shape inference do so); onnxruntime squeezes
                # anyway for a scalar split, and the folder follows onnxruntime. With chunks of size 1 the operator itself is
                # runtime-ambiguous (not generated, like OneHot); with a chunk of another size nothing can be squeezed and the
                # folder must leave the node alone - that form is generated.
                chunks = [int(sp)] * (d // int(sp)) + ([d % int(sp)] if d % int(sp) else []) if sp.ndim == 0 else [int(c) for c in sp]
                if all(c == 1 for c in chunks):
                    keepdims = 1
                else:
                    self.features.add("sequence:split_keepdims0_unsqueezable")
            node = helper.make_node("SplitToSequence", ins, outs, axis=axis, keepdims=keepdims)
        else:
            others = [w for w in self.visible(lambda w: w.dtype == v.dtype and w.shape == v.shape)]
            ins = [v] + [self.pick(others) for _ in range(self.pick([0, 1, 2]))]
            outs = [self.fresh("seq")]
            node = helper.make_node("SequenceConstruct", [i.name for i in ins], outs)
        res = eval_node(node, [v] + self.visible(), self.opset, self.functions)
        if res is None or not isinstance(res[0], list) or not res[0]:
            return
        seq = Val(outs[0], res[0], "node")
        self.nodes.append(node)
        self.env.append(seq)
        n = len(res[0])
        use = self.pick(["at", "concat", "length"])
        if use == "at":
            i = self.draw(st.integers(-n, n - 1))
            return self.emit("SequenceAt", [seq, self.const_array(np.asarray(i, dtype=np.int64))])
        if use == "length":
            return self.emit("SequenceLength", [seq])
        ax = 0
        new_axis = self.pick([0, 1])
        self.features.add(f"sequence:concat_new_axis{new_axis}")
        return self.emit("ConcatFromSequence", [seq], axis=ax, new_axis=new_axis)

    # ------------------------------------------------------------------ control flow
    def _branch(self, targets, parent_vis, force=None):
        """Build a branch graph producing one value per target (same dtype and shape)."""
        sub = Gen(self.draw, dict(self.cfg, outer=parent_vis, counter=self.counter, used_names=self.used_names,
                                  depth=self.depth + 1, opset=self.opset, overridable=False))
        sub.functions = self.functions
        outs = []
        for t in targets:
            how = force or self.pick(["unary", "const", "outer", "binary", "chain"])
            if how == "chain" and not force and t.dtype in (F32, F64) and "g_function_call" not in self.cfg.get("disable", ()) and self.chance(5):
                how = "fcall"  # a model-local function that may be called from inside this branch only
            if how == "const":
                v = sub.const_array(make_array(self.seed(), t.dtype, t.shape, "smallint"), how="init" if force else self.pick(["node", "init"]))
            elif how == "outer":
                # onnx.checker requires subgraph outputs to be node outputs -> always via Identity
                r = sub.emit("Identity", [t])
                v = r[0] if r else None
                self.features.add("branch:returns_outer")
            elif how == "unary" and t.dtype in NUMERIC:
                r = sub.emit(self.pick(["Neg", "Abs", "Identity"]), [t])
                v = r[0] if r else None
            elif how == "fcall":
                r = sub.g_function_call(t)
                v = r[0] if r else None
                if v is not None:
                    self.features.add("function")
                    self.features.add("function:called_in_branch")
            elif how == "binary" and t.dtype in NUMERIC:
                c = sub.const_array(make_array(self.seed(), t.dtype, (), "smallint"), how="init" if force else self.pick(["node", "init"]))
                r = sub.emit(self.pick(["Add", "Mul", "Sub"]), [t, c])
                v = r[0] if r else None
            else:
                r = sub.emit("Identity", [t])
                if r and t.dtype in NUMERIC and self.chance(5):
                    r = sub.emit("Add", [r[0], r[0]])
                v = r[0] if r else None
            if v is None:
                r = sub.emit("Identity", [t])
                if not r:
                    return None
                v = r[0]
            if not any(v.name in n.output for n in sub.nodes):
                r = sub.emit("Identity", [v])  # initializer as subgraph output is rejected by the checker
                if not r:
                    return None
                v = r[0]
            outs.append(v)
        # maybe a nested If or extra dead node inside
        if self.depth + 1 < self.cfg.get("max_depth", 2) and self.chance(2):
            sub.g_if()
        g = helper.make_graph(sub.nodes, self.fresh("branch"), [], [_value_info(o.name, o.arr, unknown=True) for o in outs], initializer=sub.inits)
        self.dropped += sub.dropped
        self.features |= {f for f in sub.features if f.startswith(("op:", "const:"))}
        return g

    def g_if(self, how=None, branch=None, reuse=False):
        vis = self.visible(lambda v: v.dtype in NUMERIC or v.dtype == BOOL)
        if not vis:
            return
        how = how or self.pick(["const", "const", "dynamic", "dynamic", "folded"])
        if how == "const":
            cond = self.const_array(np.asarray(self.pick([True, False])), how=self.pick(["node", "init"]))
        else:
            src = self.pick_val(lambda v: v.dtype in NUMERIC and v.arr.size >= 1 and (how == "dynamic" or v.kind == "const"))
            if src is None:
                cond = self.const_array(np.asarray(True))
            else:
                r = self.emit("ReduceSum" if src.dtype != I32 or self.opset >= 13 else "ReduceMax", [src], keepdims=0)
                if not r:
                    return
                z = self.const_array(np.asarray(0, dtype=r[0].dtype))
                c = self.emit(self.pick(["Greater", "Less"]), [r[0], z])
                if not c or c[0].shape != ():
                    return
                cond = c[0]
        k = self.pick([1, 1, 2])
        targets = [self.pick(vis) for _ in range(k)]
        parent_vis = self.outer + [v for v in self.env if isinstance(v.arr, np.ndarray)]
        tb = self._branch(targets, parent_vis, branch and self.pick(branch))
        eb = self._branch(targets, parent_vis, branch and self.pick(branch))
        if tb is None or eb is None:
            return
        self.features.add("If")
        self.features.add("If:" + how)
        if self.cfg.get("sibling_names", True):
            # disjoint scopes are independent in ONNX: let branches reuse the local names of an earlier If's branch at this level,
            # and the else-branch those of the then-branch
            prev = self.__dict__.get("_prev_branch")
            cousin = prev is not None and (reuse or self.chance(4)) and _reuse_sibling_names(prev, tb)
            if cousin:
                self.features.add("If:cousin_names_reused")
            if (cousin or reuse or self.chance(4)) and _reuse_sibling_names(tb, eb):
                self.features.add("If:sibling_names_reused")
            self._prev_branch = tb
        return self.emit("If", [cond], n_out=k, subgraph_free=parent_vis, then_branch=tb, else_branch=eb)

    def g_loop(self, reuse=False, plain_for=False, cond_passthrough=None):
        """cond_passthrough ("false" | "true" | "input"): Loop(M, cond, ...) with a positive constant trip count AND a condition operand that
        the body hands on unchanged - the shape PyTorch exports; a false condition means zero iterations whatever M says."""
        vis = self.visible(lambda v: v.dtype in (F32, F64, I64))
        if not vis:
            return
        state = [self.pick(vis) for _ in range(self.pick([1, 1, 2]))]
        trip_kind = self.pick(["const", "const", "dynamic", "none"]) if not plain_for else self.pick(["const", "const", "dynamic"])
        m = self.pick([0, 1, 2, 3])
        if cond_passthrough:
            trip_kind, m = "const", self.pick([2, 1, 3])
        parent_vis = self.outer + [v for v in self.env if isinstance(v.arr, np.ndarray)]
        sub = Gen(self.draw, dict(self.cfg, outer=parent_vis, counter=self.counter, used_names=self.used_names,
                                  depth=self.depth + 1, opset=self.opset, overridable=False))
        sub.functions = self.functions
        it = Val(self.fresh("iter"), np.asarray(0, dtype=np.int64), "input")
        cin = Val(self.fresh("cond_in"), np.asarray(True), "input")
        svals = [Val(self.fresh("s"), s.arr, "input") for s in state]
        sub.env.extend([it, cin] + svals)
        new_state = []
        for s in svals:
            how = self.pick(["add_const", "add_outer", "mul", "keep", "iter"])
            v = None
            if how == "add_const":
                c = sub.const_array(make_array(self.seed(), s.dtype, (), "smallint"), how=self.pick(["node", "init"]))
                r = sub.emit("Add", [s, c])
                v = r[0] if r else None
            elif how == "add_outer":
                cands = [w for w in parent_vis if w.dtype == s.dtype and w.shape == s.shape]
                if cands:
                    r = sub.emit(self.pick(["Add", "Sub", "Max"]), [s, self.pick(cands)])
                    v = r[0] if r else None
            elif how == "mul":
                c = sub.const_array(np.asarray(self.pick([0.5, 2, -1, 1]), dtype=s.dtype), how="node")
                r = sub.emit("Mul", [s, c])
                v = r[0] if r else None
            elif how == "iter":
                r = sub.emit("Cast", [it], to=np2onnx(s.dtype))
                if r:
                    r = sub.emit("Add", [s, r[0]])
                v = r[0] if r else None
            if v is None:
                r = sub.emit("Identity", [s])
                if not r:
                    return
                v = r[0]
            new_state.append(v)
        # condition out
        ck = self.pick(["pass", "true", "lt"]) if not plain_for else "pass"
        if cond_passthrough:
            ck = "pass"
        if ck == "pass":
            r = sub.emit("Identity", [cin])
        elif ck == "true":
            r = [sub.const_array(np.asarray(True), how="node")]
        else:
            lim = sub.const_array(np.asarray(self.pick([0, 1, 2]), dtype=np.int64), how="node")
            r = sub.emit("Less", [it, lim])
        if not r:
            return
        cout = r[0]
        scan = []
        if self.cfg.get("scan_outputs", True) and self.chance(4):
            scan = [new_state[0]] if self.chance(5) else []
            if scan:
                r = sub.emit("Identity", [scan[0]])
                if not r:
                    return
                scan = [r[0]]
                self.features.add("Loop:scan")
        body = helper.make_graph(
            sub.nodes, self.fresh("body"),
            [_value_info(it.name, it.arr), _value_info(cin.name, cin.arr)] + [_value_info(s.name, s.arr, unknown=True) for s in svals],
            [_value_info(cout.name, cout.arr)] + [_value_info(v.name, v.arr, unknown=True) for v in new_state] + [_value_info(v.name, v.arr, unknown=True) for v in scan],
            initializer=sub.inits)
        if self.cfg.get("sibling_names", True):
            # loop bodies are disjoint scopes: let this body reuse the local names (formal inputs included) of an earlier Loop body
            prev = self.__dict__.get("_prev_body")
            if prev is not None and (reuse or self.chance(5)):
                mp = dict(zip([i.name for i in body.input], [i.name for i in prev.input]))
                pi, po = _local_names(prev)
                bi, bo = _local_names(body)
                mp.update(zip(bi, pi))
                mp.update(zip(bo, po))
                used = set(mp.values())
                if len(used) == len(mp):  # (injective: two different locals must not be merged)
                    _rename_graph(body, mp)
                    self.features.add("Loop:cousin_names_reused")
            self._prev_body = body
        if trip_kind == "none" and ck != "lt":
            trip_kind = "const"
        if trip_kind == "const":
            M = self.const_array(np.asarray(m, dtype=np.int64), how=self.pick(["node", "init"]))
        elif trip_kind == "dynamic":
            src = self.pick_val(lambda v: v.rank >= 1)
            if src is None:
                M = self.const_array(np.asarray(m, dtype=np.int64))
            else:
                r = self.emit("Size", [src])
                if not r:
                    return
                lim = self.const_array(np.asarray(3, dtype=np.int64))
                r = self.emit("Min", [r[0], lim])
                if not r:
                    return
                M = r[0]
        else:
            M = None
        if cond_passthrough == "input":
            cond0 = self.add_input(BOOL, ())
            self.features.add("Loop:trip_count_and_passthrough_condition:input")
        elif cond_passthrough:
            cond0 = self.const_array(np.asarray(cond_passthrough == "true"), how=self.pick(["node", "init"]))
            self.features.add("Loop:trip_count_and_passthrough_condition:" + cond_passthrough)
        elif plain_for and M is not None:
            cond0 = None  # `for i in range(M)` without a condition input (the only loop form proto2python can bring back)
        else:
            cond0 = self.const_array(np.asarray(self.pick([True, True, False])), how=self.pick(["node", "init"])) if self.chance(7) or M is None else None
        self.dropped += sub.dropped
        self.features.add("Loop")
        self.features |= {f for f in sub.features if f.startswith(("op:", "const:"))}
        return self.emit("Loop", [M, cond0] + state, n_out=len(state) + len(scan), subgraph_free=parent_vis, body=body)

    # ------------------------------------------------------------------ model-local functions
    def g_function_call(self, v=None):
        if v is None:
            v = self.pick_val(lambda v: v.dtype in (F32, F64))
        if v is None:
            return
        fname = f"F{len(self.functions)}"
        dom = self.pick(["local", "my.domain"])
        # body: y = (x * alpha_attr + const) ; optional nested call to earlier function; optional second output
        nodes = []
        attr_names = ["alpha"] if self.chance(7) else []
        cur = "x"
        if attr_names:
            ref = helper.make_node("Constant", [], ["a"])
            a = ref.attribute.add()
            a.name = "value_float"
            a.type = onnx.AttributeProto.FLOAT
            a.ref_attr_name = "alpha"
            nodes.append(ref)
            nodes.append(helper.make_node("CastLike", ["a", "x"], ["a_c"]))
            nodes.append(helper.make_node("Mul", ["x", "a_c"], ["m"]))
            cur = "m"
        unary = self.pick(["Neg", "Abs", "Relu", "Identity", "Tanh"])
        nodes.append(helper.make_node(unary, [cur], ["u"]))
        cur = "u"
        opset_imports = [helper.make_opsetid("", self.opset)]
        prior = [k for k in self.functions if k[0] == dom]
        if prior and self.chance(5):
            k = self.pick(prior)
            kw = {}
            callee = self.functions[k]
            nd = helper.make_node(k[1], [cur], ["n"], domain=k[0])
            if callee.attribute:
                nd.attribute.append(helper.make_attribute("alpha", 2.0))
            nodes.append(nd)
            cur = "n"
            opset_imports.append(helper.make_opsetid(dom, 1))
            self.features.add("function:nested")
        nodes.append(helper.make_node("Identity", [cur], ["y"]))
        f = helper.make_function(dom, fname, ["x"], ["y"], nodes, opset_imports, attributes=attr_names)
        self.functions[(dom, fname)] = f
        attrs = {}
        if attr_names and self.chance(8):
            attrs["alpha"] = float(self.pick([0.5, 2.0, -1.0, 1.0]))
        elif attr_names:
            # attribute without default must be supplied -> always supply
            attrs["alpha"] = 1.5
        self.features.add("function")
        r = self.emit(fname, [v], domain=dom, **attrs)
        if r is None:
            del self.functions[(dom, fname)]
        return r

    # ------------------------------------------------------------------ driver
    GENERATORS = [
        ("g_unary", 8), ("g_binary", 10), ("g_compare", 3), ("g_logic", 2), ("g_where", 3), ("g_clip", 3),
        ("g_variadic", 3), ("g_cast", 5), ("g_reduce", 4), ("g_matmul", 3), ("g_transpose", 3), ("g_reshape", 6),
        ("g_expand", 3), ("g_concat", 3), ("g_split", 2), ("g_slice", 3), ("g_gather", 2), ("g_shape_chain", 5),
        ("g_softmax", 2), ("g_misc", 5), ("g_sequence", 3), ("g_if", 3), ("g_loop", 2), ("g_function_call", 2),
    ]

    def grow(self, n_nodes):
        table = [(n, w) for n, w in self.GENERATORS if n not in self.cfg.get("disable", ())]
        extra = self.cfg.get("extra_generators", [])
        names = [n for n, w in table for _ in range(w)]
        for _ in range(n_nodes):
            if extra and self.chance(self.cfg.get("extra_weight", 3)):
                r = self.pick(extra)(self)
                # the planted pattern's results become graph outputs most of the time (otherwise they are usually dead code)
                if r and self.depth == 0 and self.chance(3, 4):
                    forced = self.__dict__.setdefault("forced", [])
                    forced.extend(v for v in r if isinstance(getattr(v, "arr", None), np.ndarray) and v not in forced and v.kind == "node")
                continue
            getattr(self, self.pick(names))()


def _local_names(g):
    inits = [i.name for i in g.initializer]
    outs = [o for n in g.node for o in n.output if o]
    return inits, outs


def _rename_graph(g, mp):
    for i in g.initializer:
        i.name = mp.get(i.name, i.name)
    for vi in list(g.value_info) + list(g.output) + list(g.input):
        vi.name = mp.get(vi.name, vi.name)
    for n in g.node:
        for k, x in enumerate(n.input):
            n.input[k] = mp.get(x, x)
        for k, x in enumerate(n.output):
            n.output[k] = mp.get(x, x)
        for a in n.attribute:
            if a.type == onnx.AttributeProto.GRAPH:
                _rename_graph(a.g, mp)
            elif a.type == onnx.AttributeProto.GRAPHS:
                for sg in a.graphs:
                    _rename_graph(sg, mp)


def _reuse_sibling_names(tb, eb):
    """Rename the top-level local names of graph eb (initializers, node outputs) to those of its sibling tb, kind by kind.
    All generated names are globally unique beforehand, so the renaming cannot capture anything; nested subgraphs of eb follow."""
    ti, to = _local_names(tb)
    ei, eo = _local_names(eb)
    mp = dict(zip(ei, ti))
    mp.update(zip(eo, to))
    if not mp:
        return False
    _rename_graph(eb, mp)
    return True


def _value_info(name, arr, unknown=False, dims=None):
    if isinstance(arr, list):
        et = np2onnx(arr[0].dtype) if arr else TensorProto.FLOAT
        return helper.make_value_info(name, helper.make_sequence_type_proto(helper.make_tensor_type_proto(et, None)))
    if dims is None:
        dims = [None] * arr.ndim if unknown else list(arr.shape)
    return helper.make_tensor_value_info(name, np2onnx(arr.dtype), dims)


def _broadcastable(a, b):
    try:
        np.broadcast_shapes(tuple(a), tuple(b))
        return True
    except ValueError:
        return False


def _dedupe_axes(axes, rank):
    seen, out = set(), []
    for a in axes:
        if a % rank not in seen:
            seen.add(a % rank)
            out.append(a)
    return out


def _factor(size, k):
    if size == 0:
        return [0]
    opts = {1: [[1]], 2: [[2], [1, 2], [2, 1]], 3: [[3], [1, 3], [3, 1]], 4: [[4], [2, 2], [1, 4], [2, 1, 2]],
            6: [[6], [2, 3], [3, 2], [1, 6], [3, 1, 2]], 8: [[8], [2, 4], [4, 2], [2, 2, 2]], 9: [[3, 3], [9]],
            12: [[12], [3, 4], [4, 3], [2, 6], [2, 2, 3], [6, 2]], 16: [[4, 4], [2, 8], [2, 2, 4]],
            24: [[24], [4, 6], [2, 3, 4], [6, 4], [2, 12]]}
    o = opts.get(size, [[size], [1, size], [size, 1]])
    return list(o[k % len(o)])


def _all_distinct(a):
    return a.size == np.unique(a).size


_EVAL_CACHE = {}


def eval_node(node, free_vals, opset, functions=None):
    """Evaluate one node on concrete values with the reference evaluator.  Returns list or None."""
    names, ins = [], []
    seen = set()
    for v in free_vals:
        if v.name in seen:
            continue
        seen.add(v.name)
        names.append(v.name)
        ins.append(v)
    try:
        g = helper.make_graph([node], "n", [_value_info(v.name, v.arr) for v in ins],
                              [helper.make_empty_tensor_value_info(o) for o in node.output if o])
        opsets = [helper.make_opsetid("", opset)]
        fl = []
        if functions:
            fl = list(functions.values())
            for d in {f.domain for f in fl}:
                opsets.append(helper.make_opsetid(d, 1))
        m = helper.make_model(g, opset_imports=opsets, functions=fl, ir_version=OPSET_IR.get(opset, 8))
        ev = ReferenceEvaluator(m)
        with np.errstate(all="ignore"):
            res = ev.run(None, {v.name: v.arr for v in ins})
        out = []
        for r in res:
            if isinstance(r, list):
                out.append([np.asarray(x) for x in r])
            else:
                r = np.asarray(r)
                if r.dtype == object:
                    return None
                out.append(r)
        return out
    except Exception:  # noqa: BLE001
        return None


# ------------------------------------------------------------------------------------ model assembly
@dataclasses.dataclass
class GenModel:
    model: onnx.ModelProto
    sample_feeds: dict
    input_specs: list  # (name, dtype str, shape list)
    features: list
    overridable: list
    n_nodes: int
    dropped: int
    value_types: dict
    declared: dict = dataclasses.field(default_factory=dict)  # input name -> declared dims (int | str | None)

    def symbols(self):
        """Independent shape variables: named symbols and one per unnamed dim."""
        out = []
        for name, dims in self.declared.items():
            for i, d in enumerate(dims):
                if isinstance(d, str) and d not in out:
                    out.append(d)
                elif d is None:
                    out.append((name, i))
        return out

    def feeds_for_binding(self, binding, seed):
        """binding: dict symbol -> size.  Returns feeds with the bound shapes."""
        rng = np.random.default_rng(seed)
        out = {}
        for name, dt, shape in self.input_specs:
            dims = self.declared.get(name, shape)
            shp = []
            for i, d in enumerate(dims):
                if isinstance(d, str):
                    shp.append(binding[d])
                elif d is None:
                    shp.append(binding[(name, i)])
                else:
                    shp.append(int(d))
            out[name] = make_array(int(rng.integers(0, 2**31 - 1)), dt, tuple(shp), ["mixed", "edge", "smallint"][int(rng.integers(0, 3))])
        return out

    def feeds(self, seed, style=None, override=False):
        """Another input tuple of the same shapes.  override=True also feeds drawn values (same dtype/shape) to the
        overridable initializer-inputs; otherwise they keep their defaults (not fed)."""
        rng = np.random.default_rng(seed)
        out = {}
        for name, dt, shape in self.input_specs:
            out[name] = make_array(int(rng.integers(0, 2**31 - 1)), dt, tuple(shape), style or ["mixed", "edge", "smallint"][int(rng.integers(0, 3))])
        if override and self.overridable:
            inits = {i.name: i for i in self.model.graph.initializer}
            for name in self.overridable:
                default = numpy_helper.to_array(inits[name])
                sub = int(rng.integers(0, 2**31 - 1))
                how = int(rng.integers(0, 6))
                if default.dtype == np.int64 and default.ndim == 1 and 2 <= default.size <= 8 and how < 3 and len(set(default.tolist())) > 1:
                    # shape-like / axes-like operand: a different arrangement of the same entries is usually still a valid operand
                    # (Reshape target, perm, axes), whereas random integers almost never are
                    out[name] = default[::-1].copy() if how == 0 else np.random.default_rng(sub).permutation(default)
                    continue
                style = ["smallint", "edge", "mixed"][int(rng.integers(0, 3))]
                if default.dtype.kind in "iu" and default.ndim <= 1 and default.size <= 8:
                    style = "smallint"  # shape-like / repeats-like operands: values like 255 or 2**31 ask the runtimes for gigantic tensors
                out[name] = make_array(sub, default.dtype, default.shape, style)
        return out

    def seeds(self, k=2):
        """Feed seeds as a pure function of the model (no extra Hypothesis draws -> no duplicated hosts)."""
        h = int(model_hash(self.model), 16)
        return [(h + 7919 * i) % (2**31 - 1) for i in range(k)]


@st.composite
def models(draw, cfg=None):
    cfg = dict(cfg or {})
    g = Gen(draw, cfg)
    n_in = draw(st.integers(cfg.get("min_inputs", 1), cfg.get("max_inputs", 3)))
    for _ in range(n_in):
        g.add_input()
    pre = cfg.get("pre")
    if pre:
        pre(g)
    if not g.env:
        g.add_input()  # (min_inputs=0 and a planter that declined)
    g.grow(draw(st.integers(cfg.get("min_nodes", 2), cfg.get("max_nodes", 12))))
    return assemble(g, draw, force_outputs=g.__dict__.get("forced", [])[:4])


def assemble(g: Gen, draw, force_outputs=()):
    # outputs: a few values; prefer sinks (unused), never inputs directly (valid but dull) most of the time
    used = set()
    for n in g.nodes:
        used.update(n.input)
        for a in n.attribute:
            if a.type == onnx.AttributeProto.GRAPH:
                used.update(_free_names(a.g))
    cands = [v for v in g.env if v.kind == "node" and isinstance(v.arr, np.ndarray)]
    sinks = [v for v in cands if v.name not in used]
    outs = list(force_outputs)
    pool = sinks or cands
    if not pool and not outs:
        r = g.emit("Identity", [g.env[0]])
        pool = r or []
    k = draw(st.integers(1, 3))
    for v in pool[-k:]:
        if v not in outs:
            outs.append(v)
    if cands and draw(st.integers(0, 3)) == 0:
        v = draw(st.sampled_from(cands))  # an intermediate that is also a graph output
        if v not in outs:
            outs.append(v)
            g.features.add("intermediate_as_output")
    if g.cfg.get("initializer_outputs", True) and draw(st.integers(0, 7)) == 0:
        # an initializer that a node reads is ALSO a graph output (legal ONNX; exporters produce it for tied / returned weights): a
        # transformation that replaces or renames "an initializer that only the matched nodes read" must still see this use
        iv = [v for v in g.env if v.kind == "const" and isinstance(v.arr, np.ndarray) and v.name in used and v.name in {i.name for i in g.inits}
              and v.name not in g.overridable]
        if iv:
            v = draw(st.sampled_from(iv))
            if v not in outs:
                outs.append(v)
                g.features.add("initializer_as_graph_output")
    declare_shapes = g.cfg.get("declare_shapes", "static")
    inputs_vi = []
    specs = []
    for v, dims in g.inputs:
        if v.kind == "ovinit":
            inputs_vi.append(_value_info(v.name, v.arr))
            continue
        inputs_vi.append(_value_info(v.name, v.arr, dims=g.cfg.get("input_dims", {}).get(v.name, dims if declare_shapes == "static" else [None] * v.arr.ndim)))
        specs.append((v.name, v.arr.dtype.name, list(v.arr.shape)))
    out_unknown = g.cfg.get("output_shapes", "rank") == "rank"
    outputs_vi = [_value_info(o.name, o.arr, unknown=out_unknown) for o in outs]
    vinfo = []
    vi_mode = g.cfg.get("value_info")
    if vi_mode is True:
        vi_mode = draw(st.sampled_from(["sample", "infer", None]))
    if vi_mode == "sample" and "symbolic_dims" in g.features:
        vi_mode = "infer"  # sample shapes would contradict the declared symbolic dims
    if vi_mode == "sample":
        onames = {o.name for o in outs}
        inames = {v.name for v, _ in g.inputs}
        for name, (dt, shp) in g.value_types.items():
            if name in onames or name in inames:
                continue
            if any(name in n.output for n in g.nodes) or any(name == i.name for i in g.inits):
                vinfo.append(helper.make_tensor_value_info(name, np2onnx(dt), list(shp)))
        g.features.add("value_info")
    graph = helper.make_graph(g.nodes, "g", inputs_vi, outputs_vi, initializer=g.inits, value_info=vinfo)
    opsets = [helper.make_opsetid("", g.opset)]
    for d in sorted({f.domain for f in g.functions.values()}):
        opsets.append(helper.make_opsetid(d, 1))
    model = helper.make_model(graph, opset_imports=opsets, functions=list(g.functions.values()),
                              ir_version=OPSET_IR.get(g.opset, 8), producer_name="verif-modelgen")
    if vi_mode == "infer" and "symbolic_dims" in g.features and g.opset < 11:
        # onnx's shape inference for Slice-10 keeps the symbolic dim of a sliced axis (x[K,3][2:] is annotated [K,3]): the annotation would
        # contradict the model for every binding but the sample, and an optimizer may rely on annotations
        vi_mode = None
    if vi_mode == "infer":
        try:
            model = onnx.shape_inference.infer_shapes(model, data_prop=bool(draw(st.booleans())))
            g.features.add("value_info:inferred")
        except Exception:  # noqa: BLE001
            pass
    feeds = {v.name: v.arr for v, _ in g.inputs if v.kind == "input"}
    declared = {v.name: list(dims) for v, dims in g.inputs if v.kind == "input"}
    return GenModel(model, feeds, specs, sorted(g.features), list(g.overridable), len(g.nodes), g.dropped, dict(g.value_types), declared)


def _free_names(graph):
    names = set()
    for n in graph.node:
        names.update(n.input)
        for a in n.attribute:
            if a.type == onnx.AttributeProto.GRAPH:
                names.update(_free_names(a.g))
    names.update(o.name for o in graph.output)
    return names


def model_hash(model):
    import hashlib

    return hashlib.sha1(model.SerializeToString(deterministic=True)).hexdigest()[:16]


def model_text(model, limit=1500):
    try:
        t = onnx.printer.to_text(model)
    except Exception:  # noqa: BLE001
        t = str(model.graph)
    return t[:limit]
