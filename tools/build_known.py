"""Development helper that (re)writes known_findings.json from the tables below.  The file it writes is committed and is
read-only at run time.  Entries: id, properties, status (known|fixed), what, bucket (regex), region (name in the module's
REGIONS), replay (committed file)."""
import json
import os
import re
import sys

HOME = os.path.dirname(os.path.dirname(os.path.abspath(__file__)))
ANY = r"(violation_values|violation_not_executable|invalid|raise):"


def rules(*names):
    return "(" + "|".join(re.escape(n) for n in names) + ")"


C05 = [
    # region, rules named in the bucket, description
    ("rule_treats_initializer_input_as_constant", None,
     "rewrite rules read const_value of an initializer that is also a graph input (an overridable default) and fold it; feeding another value changes the result "
     "(seen for add_0/mul_by_1/div_by_1/sub_0, min/max fusions, slice_split, unsqueeze_unsqueeze, collapse_slice, conv affine fusions, remove_optional_bias_*, fuse_pad_into_conv); "
     "_ir_utils.get_numpy_value documents the gap as a TODO"),
    ("noop_arith_constant_within_tolerance", ["mul_by_1_rule", "add_0_rule", "sub_0_rule", "div_by_1_rule"],
     "x*c, x+c, x-c, x/c with c only approximately the literal (pattern constants match with rel_tol 1e-5 / abs_tol 1e-8), e.g. Add(x, 1e-9) -> Identity(x)"),
    ("minmax_clip_bounds_size1_not_rank0", ["min_max_rule", "max_min_rule"],
     "Min/Max -> Clip accepts single-element constants of rank >= 1 ([1], [1,1]); the broadcast they cause on the output shape is lost (shape (1,3) -> (3,))"),
    ("minmax_to_clip_before_opset11", ["min_max_rule", "max_min_rule"],
     "Min(Max(x, lo), hi) / Max(Min(x, hi), lo) -> Clip(x, lo, hi) with the bounds as INPUTS in models whose opset is < 11, where Clip only has min/max attributes (invalid model)"),
    ("clip_chain_disjoint_or_inverted", ["successive_clip_rule"],
     "Clip(Clip(x, lo1, hi1), lo2, hi2) -> Clip(x, max(lo), min(hi)) is wrong for disjoint or inverted intervals (Clip(Clip(x,'',-2),1,3) = 1, fused = -2)"),
    ("clip_opset_lt11_attribute_form", ["successive_clip_rule", "successive_relu_clip_rule", "successive_clip_relu_rule"],
     "Relu/Clip fusions on the attribute form of Clip (opset < 11): min/max attributes are ignored/dropped or a Clip with inputs is emitted (invalid for Clip-6)"),
    ("cast_cos_to_bfloat16_before_opset20", ["cast_constant_of_shape_rule", "cast_constant_of_shape_without_value_rule"],
     "Cast(ConstantOfShape, to=BFLOAT16) is folded into ConstantOfShape<value: bfloat16>, which is invalid before opset 20"),
    ("cast_cos_to_string", ["cast_constant_of_shape_rule", "cast_constant_of_shape_without_value_rule"],
     "Cast(ConstantOfShape, to=STRING): the rule builds ir.tensor([int], dtype=STRING); the result cannot be serialised"),
    ("cast_cos_integer_wraparound", ["cast_constant_of_shape_rule"],
     "Cast(ConstantOfShape(value=int16{200}), to=INT8) raises OverflowError in ir.tensor (ONNX Cast wraps around)"),
    ("flatten_zero_size_dim", ["flatten_to_reshape_rule"],
     "Flatten of a tensor with a zero-size dim becomes Reshape(x, [..0..]) without allowzero: 0 means 'copy the input dim'"),
    ("slice_split_before_opset18", ["slice_split_rule"], "slice_split_rule emits Split<num_outputs=2> in models whose opset is < 18 (attribute does not exist)"),
    ("slice_split_odd_last_dim", ["slice_split_rule"], "slice_split_rule on an odd last dim: Slice [0:d//2] and [d//2:d] vs Split(num_outputs=2) sizes (d+1)//2 and d//2"),
    ("matmul_add_addend_rank_or_broadcast", ["matmul_add_to_gemm_rule", "transpose_a_matmul_add_to_gemm_rule", "transpose_b_matmul_add_to_gemm_rule", "transpose_ab_matmul_add_to_gemm_rule"],
     "Add(MatMul(a, b), c) -> Gemm without checking c: rank > 2 or a c that broadcasts the product up makes the Gemm invalid"),
    ("gemm_to_matmul_add_trans_or_rank", ["gemm_to_matmul_add_rule"], "gemm_to_matmul_add_rule ignores transA/transB and the rank of the reshaped operand"),
    ("reshape_matmul_reshape_regroups_matrix_dims", ["one_reshape_matmul_reshape_rule", "two_reshapes_matmul_reshape_rule"],
     "Reshape(MatMul(Reshape(a, sa), Reshape(b, sb)), sc) -> MatMul(a, b) looks only at sc; input reshapes that regroup the matrix dims change the product, and so do input reshapes that regroup batch dims when the other operand has batch dims of its own (broadcasting aligns other dims: [3,1,3] vs [3,1,1,3] against [3,3,3,3])"),
    ("bn_into_gemm_beta_or_mixed_types", ["fuse_batchnorm_into_gemm_rule"],
     "fuse_batchnorm_into_gemm_rule ignores Gemm beta != 1, mixes float/double parameter types, and uses python 1e-5 instead of float32(1e-5) for the default epsilon in float64"),
    ("hardswish_opset_int_rank_or_float64", ["fuse_hardswish_rules"],
     "fuse_hardswish_rules emits HardSwish before opset 14, fuses integer tensors, accepts singleton constants of higher rank (rank change) and float64 constants within tolerance"),
    ("pad_into_convinteger_nonzero_x_zero_point", ["fuse_pad_into_conv_integer_rule"],
     "Pad(constant 0) fused into ConvInteger with x_zero_point != 0: padded zeros contributed (0 - zp)*w before, 0 after"),
    ("normalize_pad_same_autopad_with_dilation", ["normalize_pad_format_conv_rule", "normalize_pad_format_conv_integer_rule"],
     "auto_pad=SAME_* with dilations > 1: pads computed from kernel_shape instead of the dilated kernel extent"),
    ("conv_affine_scale_offset_rank_ge2", ["conv_affine_fusion_rule"], "Conv(x,w,b)*s+o with s/o of shape [1,1,1,1]: fused weight/bias get extra dims (invalid Conv / rank change)"),
    ("affine_conv_autopad_and_pads", ["affine_conv_fusion_rule"], "affine_conv_fusion_rule on a Conv that carries both auto_pad and pads=[0..]: offset no longer reaches padded positions"),
    ("gemm_bias_removed_before_opset11", ["remove_optional_bias_from_gemm_rule"], "remove_optional_bias_from_gemm_rule drops input C in models with opset < 11 where Gemm requires three inputs"),
    ("materialize_reshape_before_opset14", ["materialize_reshape_shape_rule"], "materialize_reshape_shape_rule emits Reshape<allowzero=1> before opset 14"),
    ("materialize_reshape_minus1_with_zero_dim", ["materialize_reshape_shape_rule"], "materialize_reshape_shape_rule writes [-1, 0] with allowzero=1 (invalid combination)"),
    ("dynamic_scatter_shape_with_end", ["no_op_dynamic_scatter_nd_rule"], "no_op_dynamic_scatter_nd_rule ignores Shape<end=...>: a partial update is replaced by Identity(updates)"),
    ("expand_binop_rank_extending", ["expand_before_binary_op_rules"], "Expand removed although its target shape is longer than both operands (output rank shrinks)"),
    ("expand_binop_dynamic_target_shape", ["expand_before_binary_op_rules"], "Expand with a target shape computed at run time (Shape/Concat chains over symbolic dims) removed because the symbolic shapes look broadcast-compatible: a dimension 1 that the Expand stretched to a symbolic size (which the other operand does not supply) is lost"),
    ("expand_binop_prelu_data_operand", ["expand_before_binary_op_rules"], "Expand on the data operand of PRelu removed: PRelu broadcasts only the slope (unidirectional), the result shape shrinks"),
    ("expand_binop_attribute_dropped", ["expand_before_binary_op_rules"], "expand_before_binary_op_rules re-emits BitShift/Mod without direction/fmod"),
]

# (property, region, bucket regex, description, dump dir with candidate replays)
MANUAL = [
    ("C01", "float_literal_not_f32_exact_next_to_double", r"eager:differs_from_graph_and_python_reading",
     "float literal next to a DOUBLE operand: the converter emits Constant(float32)+CastLike (0.001 -> 0.0010000000475), eager mode converts the Python float "
     "to float64 exactly; documented design of the static route, but the three front ends disagree (also C12)"),
    ("C01", "python_mod_on_float_tensor", r"(call|model):(graph_not_executable|graph_differs_from_python_reading)",
     "`X % Y` or `X % 2` with a floating-point tensor X and a right operand that is not a float literal: the converter cannot see X's type and emits Mod without fmod=1, "
     "which ONNX does not define for floating-point tensors (onnxruntime fails: 'fmod attribute must be true for floating point types'); eager mode (Tensor.__mod__) sets fmod=1 from the dtype"),
    ("C01", "python_not_on_tensor_eager", r"eager:(raises|differs_from_graph_and_python_reading)", "`not X` on a non-scalar BOOL tensor: Python's `not` cannot be overloaded, eager raises ValueError (truth value ambiguous) "
     "while the converter translates it to Not"),
    ("C01", "loop_variable_assigned_bare_eager", r"eager:raises", "`v = i` with i a for-loop variable: eager mode binds i to a Python int, so v is a Python int after the loop and returning it raises TypeError ('Unexpected type <class int>'); the graph yields an INT64 tensor"),
    ("C01", "attribute_parameter_with_default_in_model_proto", r"model:(graph_differs_from_python_reading|graph_not_executable)",
     "to_model_proto() of a script function whose attribute parameters have defaults leaves Constant<value_*: @attr> reference attributes in the main graph: "
     "onnx.checker rejects the model and runtimes read the attribute as 0 instead of the default"),
    ("C02", "attribute_parameter_with_default_in_model_proto", r"model_proto:checker:attr_ref_in_main_graph", "same defect as C01: reference attributes in the main graph of to_model_proto()"),
    ("C07", "pattern_node_more_outputs_than_host", r"raise:split_first:.*", "a pattern node declared with two outputs matched against a host Split with one output: the matcher accepts it (see the C06 finding) and applying the replacement raises ValueError"),
    ("C07", "multi_output_pattern_insertion_point", r"(invalid|violation_not_executable):neg_and_abs.*",
     "patterns with several output nodes: the replacement nodes are inserted at the position of one output node (documented TODO); a consumer placed earlier uses a value before its definition"),
    ("C10", "fresh_names_not_unique_across_scopes", r"(invalid|not_executable|values)(:.*)?", "an adapter that fires inside an If/Loop body names its new values val_0, val_1, ... like the adapter that fires in the main graph: after onnx_ir's NameFixPass an inner node refers to the outer value of the same name (e.g. DFT's new axis input bound to a float tensor)"),
    ("C11", "advanced_indices_separated_by_slice", r"(eager|graph)_different_tensor:.*", "A[-1, :, v] with v a 1-D tensor: NumPy moves the dimension of non-adjacent advanced indices to the front of the result, the converter and eager mode index axis by axis (same elements, transposed layout)"),
    ("C11", "negstep_start_below_minus_d", r"eager_different_tensor:.*",
     "A[s::-k] with s < -len: numpy yields an empty result, ONNX Slice clamps the start to 0 for negative steps and returns element 0 (eager and graph on onnxruntime; "
     "onnx.reference follows numpy)"),
    ("C13", "names_collide_after_cleanup", r"(roundtrip:different_computation:.*|text_not_python:(any|skip_initializers):SyntaxError|roundtrip:not_executable:.*|text_not_executable:ValueError:Unbound name)",
     "value names that become the same identifier after clean-up ('a.b' and 'a_b'): duplicate argument or one variable shadowing the other"),
    ("C13", "skip_initializers_random_weights_unsupported_dtype", r"export_raises:NotImplementedError@onnx_export.py:generate_rand", "skip_initializers=True with a non-float32 initializer: NotImplementedError from the random-weights generator"),
    ("C13", "inline_const_drops_still_referenced_definition", r"text_not_executable:ValueError:Unbound name", "inline_const=True drops Constant/initializer definitions that are still referenced by name (Loop trip count, initializers whose names need clean-up)"),
    ("C13", "inline_const_empty_list", r"text_not_executable:TranslationError:.*", "inline_const=True renders an empty 1-D constant as [], which the converter cannot type"),
    ("C13", "if_with_unused_outputs", r"text_not_executable:TranslationError:.*", "an If node whose outputs are all unused is exported as an `if` assigning dead variables, which the converter refuses"),
    ("C13", "python_constants_need_castlike_before_opset15", r"roundtrip:not_executable:.*", "inline_const=True / skip_initializers=True on a model with opset < 15: the Python constants are typed by the converter with CastLike, which opset 13/14 do not have"),
    ("C13", "skip_initializers_same_name_in_two_scopes", r"export_raises:RuntimeError@onnx_export\.py:_translate_graph_body", "skip_initializers=True on a model whose disjoint scopes (sibling If branches) hold initializers of the same name: RuntimeError 'already present in skipped_initializers' for a model inside the supported class"),
    ("C13", "loop_with_condition_break_first", r"text_not_executable:TranslationError:.*", "Loop with a condition input is exported as `for ...: if not cond: break` with the break first, which the converter refuses"),
    ("C15", "optimize_renames_constant_tensor_of_argument", r"argument_mutated:optimize", "optimize(ModelProto) mutates its argument: the TensorProto of Constant 'value' attributes is shared with the IR and renamed"),
    ("C15", "convert_version_proto_drops_metadata", r"lost:(graph|node)\.metadata_props:convert_version", "convert_version(ModelProto) copies only the graph back: graph/node metadata_props are lost"),
    ("C03", "reduces_to_known_rule_finding", r"(violation_values|violation_not_executable|corpus_not_executable|corpus_expected_mismatch):.*",
     "optimize()/rewrite() inherit the rewrite-rule findings recorded under C05: attributed only when a single rule unit applied alone (or the stepwise replay of the pipeline) reproduces a violation that is itself a recorded C05 finding"),
    ("C03", "bn_training_mode_unused_stats", r"(violation_values|violation_not_executable):.*",
     "BatchNormalization<training_mode=1> whose running-statistics outputs are dead: onnx_ir RemoveUnusedNodesPass (part of optimize/rewrite) drops training_mode, switching to inference statistics"),
    ("C03", "bn_training_and_inverted_clip_chain", r"violation_values:.*",
     "two recorded findings in one model (training-mode BatchNormalization whose statistics are only read through nodes that constant folding removes + Clip(Clip(x)) with an inverted interval): neither single-finding predicate holds alone"),
    ("C04", "reduces_to_known_rule_finding", r"(invalid|override|raise|signature):.*", "see C03: inherited rewrite-rule findings (validity / override / exceptions)"),
    ("C04", "cse_drops_output_type", r"(invalid:checker|signature:outputs-elemtype):optimize.*", "onnx_ir CommonSubexpressionEliminationPass (last stage of optimize_ir) merges a typed graph output with an untyped duplicate (Identity of the same input, left over from an inlined If) and keeps the untyped value: the output loses its type, the model is invalid"),
    ("C04", "bn_training_mode_unused_stats", r"(invalid|override):.*", "see C03: training-mode BatchNormalization after dead-output removal is invalid (3 outputs without training_mode)"),
    ("C09", "reduces_to_known_rule_finding", r"(violation_values|violation_not_executable):.*", "see C03: inherited rewrite-rule findings under symbolic shapes"),
    ("C09", "bn_training_mode_unused_stats", r"(violation_values|violation_not_executable):.*", "see C03"),
]

TABLES = {"C05": C05}


def main():
    path = os.path.join(HOME, "known_findings.json")
    data = {"findings": []}
    if os.path.exists(path):
        data = json.load(open(path))
    keep = [e for e in data["findings"] if not e.get("generated")]
    gen = []
    for region, names, what in C05:
        bucket = ANY + (rules(*names) if names else r"[A-Za-z0-9_.]+") + r"(:.*)?"
        replay = f"known/C05/{region}.json"
        if not os.path.exists(os.path.join(HOME, replay)):
            print("missing replay for", region, file=sys.stderr)
            continue
        gen.append({"id": "KF-C05-" + region, "properties": ["C05"], "status": "known", "what": what, "bucket": bucket, "region": region,
                    "replay": replay, "generated": True})
    import glob
    import importlib

    sys.path.insert(0, HOME)
    for pid, region, bucket, what in MANUAL:
        replay = f"known/{pid}/{region}.json"
        full = os.path.join(HOME, replay)
        if not os.path.exists(full):
            mod = importlib.import_module(f"vf.props.{pid}")
            pred = mod.REGIONS[region]
            best = None
            for p in sorted(glob.glob(f"/tmp/dump{pid}/all/{pid}-*.json")):
                c = json.load(open(p))
                try:
                    if re.fullmatch(bucket, c["bucket"]) and pred(c["case"]) and (best is None or c.get("size", 0) < best.get("size", 0)):
                        best = c
                except Exception:  # noqa: BLE001
                    pass
            if best is None:
                print("no replay candidate for", pid, region, file=sys.stderr)
                continue
            os.makedirs(os.path.dirname(full), exist_ok=True)
            json.dump({"property": pid, "bucket": best["bucket"], "detail": best["detail"], "case": best["case"]}, open(full, "w"), indent=1)
        gen.append({"id": f"KF-{pid}-{region}", "properties": [pid], "status": "known", "what": what, "bucket": bucket, "region": region, "replay": replay, "generated": True})
    for p in sorted(glob.glob(os.path.join(HOME, "known", "entries_*.json"))):
        for e in json.load(open(p)):
            e["generated"] = True
            gen.append(e)
    data["findings"] = keep + gen
    json.dump(data, open(path, "w"), indent=1)
    print(len(data["findings"]), "entries")


if __name__ == "__main__":
    main()
