"""Development helper: assign dumped violating cases (VERIF_DUMP_ALL dir) to region predicates of a property module.
usage: python tools/harvest.py <dump_dir> <Cxx>   -> table region -> #cases / buckets, list of unassigned buckets; writes the
smallest case per region to known/<Cxx>/<region>.json"""
import glob
import importlib
import json
import os
import sys
from collections import Counter, defaultdict

HOME = os.path.dirname(os.path.dirname(os.path.abspath(__file__)))
sys.path.insert(0, HOME)


def main():
    d, pid = sys.argv[1], sys.argv[2]
    mod = importlib.import_module(f"vf.props.{pid}")
    regions = getattr(mod, "REGIONS", {})
    only = sys.argv[3:] or None
    per_region = defaultdict(list)
    unassigned = Counter()
    unassigned_ex = {}
    for p in sorted(glob.glob(os.path.join(d, f"{pid}-*.json"))):
        c = json.load(open(p))
        hit = []
        for name, pred in regions.items():
            if only and name not in only:
                continue
            try:
                if pred(c["case"]):
                    hit.append(name)
            except Exception as e:  # noqa: BLE001
                print("predicate error", name, type(e).__name__, e)
        if not hit:
            unassigned[c["bucket"]] += 1
            unassigned_ex.setdefault(c["bucket"], p)
        for h in hit:
            per_region[h].append((c["size"], c["bucket"], p))
    for r, lst in sorted(per_region.items()):
        lst.sort()
        buckets = Counter(b for _, b, _ in lst)
        print(f"{r}: {len(lst)} cases; buckets: {dict(buckets)}")
        os.makedirs(os.path.join(HOME, "known", pid), exist_ok=True)
        src = json.load(open(lst[0][2]))
        with open(os.path.join(HOME, "known", pid, r + ".json"), "w") as f:
            json.dump({"property": pid, "bucket": src["bucket"], "detail": src["detail"], "case": src["case"]}, f, indent=1)
    print("---- unassigned buckets")
    for b, n in unassigned.most_common():
        print(n, b, unassigned_ex[b])


if __name__ == "__main__":
    main()
