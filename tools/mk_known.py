"""Development helper: turn the buckets of a --no-known run into DRAFT known-finding entries (reviewed by hand afterwards).
usage: python tools/mk_known.py <out_dir_of_run> <Cxx> [<Cxx> ...]   -> prints JSON entries, copies replays to known/<Cxx>/"""
import json
import os
import re
import shutil
import sys

HOME = os.path.dirname(os.path.dirname(os.path.abspath(__file__)))


def slug(s):
    return re.sub(r"[^A-Za-z0-9]+", "-", s).strip("-")[:70]


def main():
    out = sys.argv[1]
    entries = []
    for pid in sys.argv[2:]:
        ev = json.load(open(os.path.join(out, "evidence", f"{pid}.json")))
        for b in ev["coverage"]["new_violation_buckets"]:
            name = slug(b["bucket"])
            dst_dir = os.path.join(HOME, "known", pid)
            os.makedirs(dst_dir, exist_ok=True)
            dst = os.path.join(dst_dir, name + ".json")
            shutil.copy(b["replay"], dst)
            entries.append({"id": f"KF-{pid}-{name}", "property": pid, "status": "known", "bucket": re.escape(b["bucket"]), "region": "TODO",
                            "what": b["detail"][:200].replace("\n", " "), "replay": os.path.relpath(dst, HOME)})
    print(json.dumps(entries, indent=1))


if __name__ == "__main__":
    main()
