"""Development helper: confirm a seeded change myself and store it under /verif/seeded/<id>/.
usage: python tools/confirm_seeded.py <prop> <n> <breaks-prop> <caught-by-checks,comma> -- <pytest targets...>
Steps (scratch worktree /tmp/wt/<prop>, never /repo): checkout current /repo HEAD, run the pytest targets on the clean tree, apply out/<n>/patch.diff,
run the demo (must exit 1), run the same pytest targets (must not lose a passing test), undo, run the demo (must exit 0)."""
import json
import os
import re
import shutil
import subprocess
import sys

HOME = os.path.dirname(os.path.dirname(os.path.abspath(__file__)))


def sh(cmd, cwd, env=None, timeout=3600):
    e = dict(os.environ)
    e.update(env or {})
    p = subprocess.run(cmd, cwd=cwd, shell=True, capture_output=True, text=True, env=e, timeout=timeout)
    return p.returncode, p.stdout + p.stderr


def pytest_counts(wt, targets, junit):
    rc, out = sh(f"/venv/bin/python -m pytest -q -p no:cacheprovider --junitxml={junit} {targets}", wt, {"PYTHONPATH": wt})
    import xml.etree.ElementTree as ET

    res = {}
    try:
        for tc in ET.parse(junit).iter("testcase"):
            name = tc.get("classname", "") + "::" + tc.get("name", "")
            st = "pass"
            for ch in tc:
                if ch.tag in ("failure", "error"):
                    st = "fail"
                elif ch.tag == "skipped" and st == "pass":
                    st = "skip"
            res[name] = st
    except Exception as e:  # noqa: BLE001
        return None, out[-2000:]
    tail = [l for l in out.splitlines() if re.search(r"\d+ (passed|failed|error)", l)]
    return res, (tail[-1] if tail else out[-300:])


def main():
    i = sys.argv.index("--")
    prop, n, breaks, caught = sys.argv[1:5]
    targets = " ".join(sys.argv[i + 1:])
    wt = os.path.join(os.environ.get("WT_ROOT", "/tmp/wt"), prop)
    src = f"{wt}/out/{n}"
    head = subprocess.run(["git", "-C", "/repo", "rev-parse", "HEAD"], capture_output=True, text=True).stdout.strip()
    sid = f"{breaks}-{prop}-{n}" if breaks != prop else f"{prop}-{n}"
    log = {"id": sid, "breaks": breaks, "worktree": wt, "repo_head": head, "pytest_targets": targets}
    rc, out = sh(f"git checkout -q -- . && git checkout -q --detach {head}", wt)
    assert rc == 0, out
    base, base_tail = pytest_counts(wt, targets, f"/tmp/confirm_{sid}_base.xml")
    rc, out = sh(f"git apply out/{n}/patch.diff", wt)
    log["patch_applies_to_head"] = rc == 0
    if rc != 0:
        print("APPLY FAILED", out)
        sys.exit(2)
    rc_demo_with, _ = sh(f"/venv/bin/python -W ignore out/{n}/demo.py", wt, {"PYTHONPATH": wt})
    rc_imp, out_imp = sh("/venv/bin/python -W ignore -c 'import onnxscript, onnxscript.optimizer, onnxscript.rewriter, onnxscript.version_converter'", wt, {"PYTHONPATH": wt})
    pat, pat_tail = pytest_counts(wt, targets, f"/tmp/confirm_{sid}_patched.xml")
    sh("git checkout -q -- .", wt)
    rc_demo_without, _ = sh(f"/venv/bin/python -W ignore out/{n}/demo.py", wt, {"PYTHONPATH": wt})
    lost = sorted(k for k, v in (base or {}).items() if v == "pass" and (pat or {}).get(k) != "pass")
    log.update({"demo_exit_with_patch": rc_demo_with, "demo_exit_without_patch": rc_demo_without, "package_imports_with_patch": rc_imp == 0,
                "pytest_clean": base_tail, "pytest_patched": pat_tail, "passing_tests_lost_with_patch": lost[:20],
                "n_tests_compared": len(base or {})})
    ok = rc_demo_with == 1 and rc_demo_without == 0 and rc_imp == 0 and base is not None and pat is not None and not lost
    log["confirmed"] = ok
    print(json.dumps(log, indent=1))
    if not ok:
        sys.exit(1)
    dst = os.path.join(HOME, "seeded", sid)
    os.makedirs(dst, exist_ok=True)
    shutil.copy(f"{src}/patch.diff", dst)
    shutil.copy(f"{src}/demo.py", dst)
    if os.path.exists(f"{src}/notes.md"):
        shutil.copy(f"{src}/notes.md", dst)
    notes = open(f"{src}/notes.md").read() if os.path.exists(f"{src}/notes.md") else ""
    m = re.search(r"##[^\n]*(needed|need|Trigger|Binding|History|Seed|Configuration)[^\n]*\n(.*?)(\n## |\Z)", notes, re.S | re.I)
    meta = {"id": sid, "breaks_property": breaks, "written_for_property": prop, "needs_to_manifest": (m.group(2).strip()[:1500] if m else "see notes.md"),
            "what_i_ran": {"base_commit": head, "demo_with_patch_exit": rc_demo_with, "demo_without_patch_exit": rc_demo_without,
                           "existing_tests": targets, "existing_tests_clean": base_tail, "existing_tests_patched": pat_tail,
                           "passing_tests_lost": lost, "package_imports": True},
            "caught_by": [c for c in caught.split(",") if c and c != "-"]}
    json.dump(meta, open(os.path.join(dst, "meta.json"), "w"), indent=1)


if __name__ == "__main__":
    main()
