#!/bin/sh
# Development helper: evaluate stored seeded changes against registered checks without touching /repo.
# usage: tools/sweep.sh <lane-file> <tier> <id> [<id> ...]     (id = directory name under seeded/, optionally id:Cxx,Cyy for the checks to run)
# Writes "=== ..." blocks that tools/seeded_table.py understands. One scratch worktree under /tmp, removed at the end.
HERE=$(cd "$(dirname "$0")/.." && pwd)
LANE=$1; TIER=$2; shift 2
WT=$(mktemp -d /tmp/sweepwt.XXXXXX); rmdir $WT
git -C /repo worktree add -q --detach $WT HEAD || exit 2
trap 'git -C /repo worktree remove --force $WT; rm -rf $WT' EXIT
for spec in "$@"; do
  id=${spec%%:*}; checks=${spec#*:}; [ "$checks" = "$spec" ] && checks=$(jq -r .breaks_property $HERE/seeded/$id/meta.json)
  prop=$(jq -r .written_for_property $HERE/seeded/$id/meta.json); n=${id##*-}
  OUT=/tmp/seedrun/$id; rm -rf $OUT; mkdir -p $OUT
  echo "=== $WT $prop #$n -> $id" >> $LANE
  (cd $WT && git checkout -q -- . && git clean -fdq && git apply $HERE/seeded/$id/patch.diff) || { echo "APPLY FAILED" >> $LANE; continue; }
  PYTHONPATH=$WT /venv/bin/python -W ignore $HERE/seeded/$id/demo.py > $OUT/demo_with.log 2>&1; echo "demo with patch: exit=$?" >> $LANE
  for c in $(echo $checks | tr ',' ' '); do
    (cd $HERE && VERIF_REPO=$WT VERIF_OUT=$OUT ./check $c --tier $TIER > $OUT/$c.log 2>&1; echo "check $c with patch: exit=$? $(grep -c '^VIOLATION' $OUT/$c.log) violation line(s); $(grep '^  bucket' $OUT/$c.log | head -3 | cut -c1-160 | tr '\n' ';')") >> $LANE
  done
  (cd $WT && git checkout -q -- . && git clean -fdq)
  PYTHONPATH=$WT /venv/bin/python -W ignore $HERE/seeded/$id/demo.py > $OUT/demo_without.log 2>&1; echo "demo without patch: exit=$?" >> $LANE
done
