"""Development helper: which recorded finding (if any) covers a stored violating case?  usage: python tools/attr.py <Cxx> <replay.json>..."""
import importlib
import json
import os
import sys

HOME = os.path.dirname(os.path.dirname(os.path.abspath(__file__)))
sys.path.insert(0, HOME)
from vf import runner  # noqa: E402

pid = sys.argv[1]
mod = importlib.import_module(f"vf.props.{pid}")
known = runner.load_known(pid)
for p in sys.argv[2:]:
    c = json.load(open(p))
    print(os.path.basename(p)[:70], "|", c["bucket"][:70], "->", runner._attribute(mod, known, c["bucket"], c["case"]))
