#!/bin/sh
# usage: tools/seed_eval.sh <worktree-id> <n> <check ids...>   (development: evaluates a seeded change in its scratch worktree)
WT=${WT_ROOT:-/tmp/wt}/$1; N=$2; shift 2
OUT=/tmp/seedrun/$(basename $(dirname $WT))-$(basename $WT)-$N; mkdir -p $OUT
cd $WT && git checkout -q -- . && git checkout -q --detach $(git -C ${VERIF_REPO_MAIN:-/repo} rev-parse HEAD) && git apply out/$N/patch.diff || { echo "APPLY FAILED"; exit 2; }
PYTHONPATH=$WT /venv/bin/python -W ignore out/$N/demo.py > $OUT/demo_with.log 2>&1; echo "demo with patch: exit=$?"
for c in "$@"; do
  (cd /verif && VERIF_REPO=$WT VERIF_OUT=$OUT ./check $c > $OUT/$c.log 2>&1; echo "check $c with patch: exit=$? $(grep -c '^VIOLATION' $OUT/$c.log) violation line(s); $(grep '^  bucket' $OUT/$c.log | head -3 | cut -c1-160 | tr '\n' ';')")
done
cd $WT && git checkout -q -- .
PYTHONPATH=$WT /venv/bin/python -W ignore out/$N/demo.py > $OUT/demo_without.log 2>&1; echo "demo without patch: exit=$?"
