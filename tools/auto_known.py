"""Development helper: build known-finding entries for a property module from a dump of violating cases.
For dict-REGIONS modules every case must satisfy >=1 region predicate; one entry per region, bucket = alternation of the observed buckets.
For C08 / C16 (parametric region names) one entry per bucket with a region name derived from the case.
usage: python tools/auto_known.py <Cxx> <dump_dir> [more dump dirs]   -> writes known/<Cxx>/*.json and prints JSON entries to merge"""
import glob
import importlib
import json
import os
import re
import sys
from collections import defaultdict

HOME = os.path.dirname(os.path.dirname(os.path.abspath(__file__)))
sys.path.insert(0, HOME)


def slug(s):
    return re.sub(r"[^A-Za-z0-9]+", "-", s).strip("-")[:80]


def main():
    pid = sys.argv[1]
    mod = importlib.import_module(f"vf.props.{pid}")
    R = mod.REGIONS
    cases = []
    for d in sys.argv[2:]:
        for p in sorted(glob.glob(os.path.join(d, f"{pid}-*.json"))):
            cases.append(json.load(open(p)))
    groups = defaultdict(list)
    unassigned = defaultdict(list)
    pre = {}
    for c in cases:
        case = c["case"]
        if pid == "C08":
            b = c["bucket"]
            op = case.get("canonical") or case.get("op") or (case.get("ops") or ["?"])[0]
            pre.setdefault((op, b), []).append(c)
        elif pid == "C16":
            region = "entry:" + case.get("qualified_name", "?")
            groups[(region, None)].append(c)
        else:
            hit = [n for n, pred in R.items() if not n.startswith("method:") and _safe(pred, case)]
            if not hit:
                hit = [n for n, pred in R.items() if n.startswith("method:") and _safe(pred, case)]
            if not hit:
                unassigned[c["bucket"]].append(c)
            for h in hit:
                groups[(h, None)].append(c)
    # C08: narrow the region of each (op, bucket) group to the structural classes that ALL its recorded cases share (only classes that
    # name a cause: zero-size, rank 0, dim=None, empty dim list, -1 entry, python scalar in a tensor position), so that a different
    # failure of the same operator is still reported
    STRONG = ["size0", "rank0", "dim_none", "dim_empty", "minus1", "scalar_for_tensor"]
    for (op, b), lst in pre.items():
        common = set.intersection(*[set(c["case"].get("classes", [])) for c in lst])
        need = [k for k in STRONG if k in common]
        region = f"op={op}" + (";class=" + ",".join(need) if need else "")
        for c in lst:
            if R.get(region)(c["case"]):
                groups[(region, b)].append(c)
            else:
                unassigned[b].append(c)
    entries = []
    os.makedirs(os.path.join(HOME, "known", pid), exist_ok=True)
    for (region, b), lst in sorted(groups.items()):
        lst.sort(key=lambda c: c.get("size", 0))
        buckets = sorted({c["bucket"] for c in lst})
        first = lst[0]
        full = region if b is None else region + "-" + b.split(":", 1)[-1]
        name = slug(full)
        if len(re.sub(r"[^A-Za-z0-9]+", "-", full).strip("-")) > 80:  # truncated slugs collide: keep them apart
            import hashlib

            name = name[:70] + "-" + hashlib.sha1(full.encode()).hexdigest()[:8]
        path = os.path.join("known", pid, name + ".json")
        json.dump({"property": pid, "bucket": first["bucket"], "detail": first["detail"], "case": first["case"]}, open(os.path.join(HOME, path), "w"), indent=1, default=str)
        entries.append({"id": f"KF-{pid}-{name}", "properties": [pid], "status": "known", "what": first["detail"][:240].replace("\n", " "),
                        "bucket": ("(" + "|".join(re.escape(x) for x in buckets) + ")") if b is not None else
                                  ("(" + "|".join(sorted({re.escape(x.split(":")[0]) for x in buckets})) + ")(:.*)?"), "region": region, "replay": path, "auto": pid})
    json.dump(entries, open(f"/tmp/auto_known_{pid}.json", "w"), indent=1)
    print(pid, len(entries), "entries;", sum(len(v) for v in unassigned.values()), "unassigned cases")
    for b, lst in unassigned.items():
        print("   UNASSIGNED", len(lst), b[:150])


def _safe(pred, case):
    try:
        return bool(pred(case))
    except Exception:  # noqa: BLE001
        return False


if __name__ == "__main__":
    main()
