"""Development helper: fold the results of the final sweep (tools/seed_eval.sh per seeded change) into
seeded/<id>/meta.json and regenerate the table in DESIGN.md 6.5.
usage: python tools/seeded_table.py <dir with lane *.txt files written by the sweep>"""
import glob
import json
import os
import re
import sys

HOME = os.path.dirname(os.path.dirname(os.path.abspath(__file__)))
import subprocess

HEAD = subprocess.run(["git", "-C", "/repo", "rev-parse", "--short", "HEAD"], capture_output=True, text=True).stdout.strip()
BEGIN, END = "<!-- SEEDED_TABLE_BEGIN -->", "<!-- SEEDED_TABLE_END -->"


def parse(results_dir):
    res = {}
    for f in sorted(glob.glob(os.path.join(results_dir, "*.txt"))):
        cur = None
        for line in open(f):
            m = re.match(r"=== (\S+) (C\d\d) #(\d+) -> (.*)", line)
            if m:
                cur = res.setdefault((m.group(2), m.group(3)), {"checks": {}, "demo_with": None, "demo_without": None, "apply_failed": False})
                cur["apply_failed"] = False  # (a later file re-evaluates the change, e.g. after its patch was ported)
                continue
            if cur is None:
                continue
            if "APPLY FAILED" in line:
                cur["apply_failed"] = True
            m = re.match(r"demo with patch: exit=(\d+)", line)
            if m:
                cur["demo_with"] = int(m.group(1))
            m = re.match(r"demo without patch: exit=(\d+)", line)
            if m:
                cur["demo_without"] = int(m.group(1))
            m = re.match(r"check (C\d\d) with patch: exit=(\d+) (\d+) violation line\(s\);(.*)", line)
            if m:
                buckets = re.findall(r"bucket=(\S+)", m.group(4))
                cur["checks"][m.group(1)] = {"exit": int(m.group(2)), "violation_lines": int(m.group(3)), "first_buckets": buckets[:3]}
    return res


def main():
    res = parse(sys.argv[1])
    rows = []
    problems = []
    for d in sorted(glob.glob(os.path.join(HOME, "seeded", "*"))):
        mp = os.path.join(d, "meta.json")
        if not os.path.exists(mp):
            problems.append(f"{d}: no meta.json")
            continue
        meta = json.load(open(mp))
        key = (meta["written_for_property"], meta["id"].rsplit("-", 1)[1])
        r = res.get(key)
        if r is None or r["apply_failed"] or not r["checks"]:
            # no result in these lane files: keep what an earlier sweep stored in meta.json
            stored = meta.get("what_i_ran", {}).get("checks_with_patch_applied")
            if not stored:
                problems.append(f"{meta['id']}: no sweep result")
                continue
            r = {"checks": stored, "demo_with": 1, "demo_without": 0, "apply_failed": False, "stored": True}
        if r["demo_with"] != 1 or r["demo_without"] != 0:
            problems.append(f"{meta['id']}: demo exits {r['demo_with']}/{r['demo_without']}")
        caught = sorted(c for c, v in r["checks"].items() if v["exit"] == 1 and v["violation_lines"] > 0)
        broken = sorted(c for c, v in r["checks"].items() if v["exit"] not in (0, 1))
        if broken:
            problems.append(f"{meta['id']}: check(s) {broken} exited with a harness error")
        if not r.get("stored"):
            meta["caught_by"] = caught
            meta["what_i_ran"]["checks_evaluated_at_repo_commit"] = HEAD
            prev = meta["what_i_ran"].get("checks_with_patch_applied", {})
            prev.update({c: {"command": f"VERIF_REPO=<worktree with patch> ./check {c}", **v} for c, v in sorted(r["checks"].items())})
            meta["what_i_ran"]["checks_with_patch_applied"] = prev
            meta["caught_by"] = sorted(c for c, v in prev.items() if v["exit"] == 1 and v["violation_lines"] > 0)
            caught = meta["caught_by"]
            r = dict(r, checks=prev)
            json.dump(meta, open(mp, "w"), indent=1)
        title = ""
        np_ = os.path.join(d, "notes.md")
        if os.path.exists(np_):
            first = open(np_).readline().strip()
            title = re.sub(r"^#\s*Change\s*\d+\s*[-:]\s*", "", first)
        title = title.replace("|", "/")
        file_ = ""
        m = re.search(r"^\+\+\+ b/(\S+)", open(os.path.join(d, "patch.diff")).read(), re.M)
        if m:
            file_ = m.group(1).replace("onnxscript/", "", 1)
        first_b = ""
        if caught:
            fb = r["checks"][caught[0]]["first_buckets"]
            first_b = fb[0][:60] if fb else ""
        rows.append((meta["id"], meta["breaks_property"], title, file_, ", ".join(caught) if caught else "**not caught**", first_b.replace("|", "/")))
    lines = [BEGIN, "", "| id | breaks | change (as described by its author) | file | caught by (quick tier, VERIF_SEED=1) | first bucket reported |", "|---|---|---|---|---|---|"]
    for r in rows:
        lines.append("| " + " | ".join(r) + " |")
    n_caught = sum(1 for r in rows if "not caught" not in r[4])
    lines += ["", f"{len(rows)} seeded changes confirmed and kept; {n_caught} caught by at least one registered check, {len(rows) - n_caught} not caught.", "", END]
    p = os.path.join(HOME, "DESIGN.md")
    s = open(p).read()
    block = "\n".join(lines)
    if BEGIN in s:
        s = s[: s.index(BEGIN)] + block + s[s.index(END) + len(END):]
    elif "SEEDED_TABLE_PLACEHOLDER" in s:
        s = s.replace("SEEDED_TABLE_PLACEHOLDER", block)
    else:
        print("no marker in DESIGN.md")
    open(p, "w").write(s)
    print(f"{len(rows)} rows, {n_caught} caught")
    for pr in problems:
        print("PROBLEM", pr)


if __name__ == "__main__":
    main()
