"""Development helper: record a repaired defect.  usage: python tools/add_fixed.py <Cxx> <commit> <replay.json>
Copies the replay to known/fixed/ and appends a 'fixed' entry to known/entries_fixed.json (then run tools/build_known.py)."""
import json
import os
import subprocess
import sys

HOME = os.path.dirname(os.path.dirname(os.path.abspath(__file__)))


def main():
    pid, commit, src = sys.argv[1:4]
    what = subprocess.run(["git", "-C", os.environ.get("VERIF_REPO", "/repo"), "log", "-1", "--format=%s", commit], capture_output=True, text=True).stdout.strip()
    p = os.path.join(HOME, "known", "entries_fixed.json")
    entries = json.load(open(p))
    n = len(entries)
    rel = f"known/fixed/{pid}-{commit}-{n:02d}.json"
    case = json.load(open(src))
    json.dump({"property": pid, "bucket": case.get("bucket"), "detail": case.get("detail"), "case": case["case"]}, open(os.path.join(HOME, rel), "w"), indent=1)
    entries.append({"id": f"FIXED-{pid}-{commit}-{n:02d}", "properties": [pid], "status": "fixed", "commit": commit, "what": what, "bucket": ".*", "replay": rel,
                    "record": f"fixed: property={pid} {commit} {what}"})
    json.dump(entries, open(p, "w"), indent=1)
    print(entries[-1]["record"])


if __name__ == "__main__":
    main()
